"""C14 — stateful transforms (center, scale/standardize, bs, poly).

Runs the real `Center/Scale/BSpline/Polynomial` (directly through `formulae.transforms` and
through `design_matrices(...)` + `.common.evaluate_new_data(...)`) on generated vectors x
parameter grid x call histories, and compares with the exact rational Lean model
(`Model/Transforms.lean`, run by the driver).  The contract predicates of `Spec/C14.lean` are
evaluated by the driver on the implementation's actual output (floats converted exactly to
rationals, tolerance passed explicitly)."""
import math
import warnings
from fractions import Fraction as F

import numpy as np

from common import Result, ask, rng_for

ASSUMPTIONS = [
    "IEEE-754 rounding of numpy/scipy is not modelled: center and raw-poly are compared exactly on "
    "data chosen so that every float operation is exact (dyadic values, dyadic mean, powers below "
    "2^53); scale, bs and orthogonal poly are compared with relative tolerance 1e-9 (1e-6 for "
    "orthogonal poly on data with offsets >= 1e3, or with a spread < 1/4 under an offset >= 1000 "
    "spreads, where the recurrence loses digits: measured 8e-9 at degree 5 on six points "
    "-512 + [0.01, 0.04]); small-spread data without offset (rates in [0.01, 0.09]) are judged at "
    "1e-9; a column of the orthogonal poly whose first-order conditioning bound "
    "4 * u * max|x| * k * width^(k-1) / sqrt(n2_k) (n2_k = exact squared norm of the monic "
    "orthogonal polynomial, from the Lean model) exceeds that tolerance is compared with the model "
    "at the bound instead (near-saturated degrees on clustered data under an offset; counted in the "
    "input distribution)",
    "data families: small integers, dyadics, ties, offsets 1e3..1e6, wide, small spread (dyadic "
    "rates in [0.01, 0.09], also a narrower band), small spread on an offset (250, 37, -512); for "
    "poly the later vectors leave the training range by at most 2.5 spreads when the spread is "
    "small, because a tight cluster plus a point ~100 spreads away used as TRAINING data (changing-"
    "argument histories) is ill-conditioned on the unchanged library (measured 1.6e-6 on the "
    "degree-5 column)",
    "formula interface: every contract is judged on the training matrix and on every later "
    "evaluate_new_data of the same term (poly: two later frames), with the call written "
    "positionally, by keyword in both orders, with defaults left out and with values taken from "
    "the evaluation namespace",
    "calling scope: besides the harness's own scope (which binds no registry name), the formula interface "
    "is driven from generated calling scopes -- the locals or the globals of a generated caller function, "
    "or extra_namespace -- that bind the name of the transform under test (always) and the other names "
    "of formulae.transforms.TRANSFORMS / formulae.categorical.ENCODINGS (each with probability 0.35) to "
    "unrelated objects (floats, ints, a string, None, a list, arrays, a user class, unrelated functions, "
    "np.log) or to stateless look-alike functions (center: v - mean(v); scale/standardize: "
    "(v - mean(v)) / sd(v) with the population or the sample sd; poly: plain powers, QR of the centred "
    "Vandermonde matrix; bs: two hat functions; each of them also as a function that fits a NEW "
    "Center/Scale/Polynomial/BSpline on every call); the contracts (training values, later data through "
    "the TRAINING parameters) are judged by the same Spec.C14 predicates and never depend on the "
    "bindings; a center/scale term that raises there is a failure only when the same frames are "
    "transformed from the clean scope",
    "scipy.interpolate.splev is assumed to evaluate the Cox-de Boor recursion on the knot interval "
    "found by FITPACK's search (clamped to [k, n-k-2]); np.percentile is assumed to be linear "
    "interpolation between order statistics; both are checked only through this correspondence",
    "bs basis values are compared at the implementation's own knot vector (exact rationalisation of "
    "the floats in `_knots`); the knot vector itself is compared with the model's within 1e-9",
    "'inside the boundary knots' is read as lower <= x <= upper and qualifies both non-negativity "
    "and partition of unity (outside, splev extrapolates)",
    "validation of the bounds: besides inverted explicit pairs, ONE explicit bound on the far side of "
    "all the data (lower_bound > max(x) or upper_bound < min(x); the other bound is the data range) for "
    "every degree 0..5 x intercept x side x way of asking for no interior knots (df at its minimum, "
    "knots=[], both) and with interior knots placed by df, on the fixed vectors and on every generated "
    "vector (direct and through the formula interface); judged by Spec.C14.validBsArgs (bounds default "
    "to the data range, lower <= upper)",
    "Polynomial: data with <= degree distinct values (a zero norm: NaN columns) are outside the "
    "statement; there only the columns before the first zero norm are compared",
]
TRUSTED = ["numpy (mean, std, percentile, power, sum), scipy.interpolate.splev: modelled, not verified",
           "harness/c14.py float -> exact rational conversion and tolerance comparison"]

KF_UPPER = "KF-C14-BS-UPPER-KNOT"
KF_DF0 = "KF-C14-DF-FLOAT-ZERO"

RTOL = 1e-9


# ------------------------------------------------------------------------------------------------
# numbers
# ------------------------------------------------------------------------------------------------
def qj(v):
    """Fraction -> protocol"""
    v = F(v)
    return [v.numerator, v.denominator]


def fj(x):
    """float -> exact protocol rational, None for non-finite"""
    x = float(x)
    if not math.isfinite(x):
        return None
    return qj(F(x))


def unq(j):
    return None if j is None else F(j[0], j[1])


def fl(v):
    """Fraction -> nearest float"""
    return v.numerator / v.denominator


def exact_float(v):
    try:
        return F(fl(v)) == v
    except OverflowError:
        return False


def close(a, b, tol, scale=1.0):
    return abs(a - b) <= tol * max(1.0, abs(scale))


# ------------------------------------------------------------------------------------------------
# generators
# ------------------------------------------------------------------------------------------------
def gen_vector(rng, n=None, exact_mean=False, style=None):
    """list of Fractions: small integers / dyadic rationals, ties, large offsets, small n"""
    if n is None:
        n = rng.choice([2, 2, 3, 3, 4, 5, 6, 7, 8, 9, 10, 12, 16, 20])
    style = style or rng.choice(["int", "int", "dyadic", "ties", "ties_hi", "offset", "offset", "wide",
                                 "small", "small_offset", "const"] if rng.random() < 0.9 else ["const"])
    den = 1
    if style == "int":
        ks = [rng.randrange(-6, 7) for _ in range(n)]
    elif style == "dyadic":
        den = rng.choice([2, 4, 8])
        ks = [rng.randrange(-20, 21) for _ in range(n)]
    elif style == "ties":
        pool = [rng.randrange(-3, 4) for _ in range(rng.choice([2, 2, 3]))]
        ks = [rng.choice(pool) for _ in range(n)]
    elif style == "ties_hi":     # more than half of the data at the maximum / minimum
        top = rng.randrange(1, 5)
        ks = [top if rng.random() < 0.65 else rng.randrange(-3, top) for _ in range(n)]
        if rng.random() < 0.3:
            ks = [-k for k in ks]
    elif style == "offset":
        off = rng.choice([10 ** 6, 10 ** 6, -10 ** 6, 10 ** 3, 123456])
        den = rng.choice([1, 1, 2])
        ks = [off * den + rng.randrange(-8, 9) for _ in range(n)]
    elif style == "wide":
        ks = [rng.randrange(-1000, 1001) for _ in range(n)]
    elif style in ("small", "small_offset"):
        # a small spread (rates / proportions between about 0.01 and 0.09, dyadic so that sums stay
        # exact), alone or on top of an offset that is large relative to the spread
        den = rng.choice([1024, 4096])
        off = 0 if style == "small" else rng.choice([250, 250, 37, -512])
        lo_k, hi_k = den // 100, (den * 9) // 100
        if rng.random() < 0.25:
            hi_k = lo_k + max(4, (hi_k - lo_k) // 8)      # a still narrower band
        ks = [off * den + rng.randrange(lo_k, hi_k + 1) for _ in range(n)]
    else:
        c = rng.randrange(-4, 5)
        ks = [c] * n
    if exact_mean and n and style != "const":
        # make the sum divisible by n: the mean is then a dyadic with the same denominator
        s = sum(ks)
        ks[-1] += (-s) % n
    return [F(k, den) for k in ks], style


def gen_new(rng, base, scaled=False):
    """later data: different size, shifted/rescaled, sometimes beyond the training range.
    `scaled`: the excursions beyond the range are measured in units of the spread when the spread
    is small (used for poly, where "a tight cluster plus one point 100 spreads away" as TRAINING
    data of the changing-arguments histories is ill-conditioned on the unchanged library: measured
    1.6e-6 on the degree-5 column, 1.5e-8 on the degree-4 column)"""
    n = rng.choice([1, 2, 3, 5, 8])
    lo, hi = min(base), max(base)
    unit = (hi - lo) / 4 if (scaled and 0 < hi - lo < F(1, 4)) else F(1)
    out = []
    for _ in range(n):
        r = rng.random()
        if r < 0.5 and hi > lo:
            out.append(lo + (hi - lo) * F(rng.randrange(0, 17), 16))
        elif r < 0.7:
            out.append(rng.choice(base))
        else:
            out.append(lo + unit * F(rng.randrange(-40, 41), 4))
    return out


def gen_bs_args(rng, x, valid=True):
    """abstract bs arguments: dict(df, knots, degree, intercept, lower, upper)"""
    lo, hi = (min(x), max(x)) if x else (F(0), F(1))
    degree = rng.choice([0, 1, 1, 2, 2, 3, 3, 3, 4, 5])
    intercept = rng.random() < 0.5
    a = dict(df=None, knots=None, degree=degree, intercept=intercept, lower=None, upper=None)
    mode = rng.choice(["df", "df", "knots", "knots", "both"])
    need = degree + 1 - (0 if intercept else 1)
    r = rng.random()
    if r < 0.25:
        a["lower"] = lo - rng.randrange(0, 3)
        a["upper"] = hi + rng.randrange(0, 3)
    elif r < 0.35:
        a["upper"] = hi + F(rng.randrange(0, 9), 4)
    elif r < 0.45:
        a["lower"] = lo - F(rng.randrange(0, 9), 4)
    elif r < 0.55 and hi > lo:          # bounds inside the data range: some x lie outside
        a["lower"] = lo + (hi - lo) * F(rng.randrange(0, 4), 16)
        a["upper"] = hi - (hi - lo) * F(rng.randrange(0, 4), 16)
    blo = a["lower"] if a["lower"] is not None else lo
    bhi = a["upper"] if a["upper"] is not None else hi

    def some_knots(m):
        ks = []
        for _ in range(m):
            t = rng.random()
            if t < 0.12:
                ks.append(bhi)              # knot on the upper boundary
            elif t < 0.24:
                ks.append(blo)
            elif t < 0.4 and ks:
                ks.append(rng.choice(ks))   # repeated knot
            elif t < 0.55 and x:
                v = rng.choice(x)
                ks.append(min(max(v, blo), bhi))
            else:
                ks.append(blo + (bhi - blo) * F(rng.randrange(0, 33), 32))
        if rng.random() < 0.5:
            ks.sort()
        return ks

    if mode == "df":
        a["df"] = need + rng.choice([0, 0, 1, 1, 2, 3, 4])
    elif mode == "knots":
        a["knots"] = some_knots(rng.choice([0, 1, 1, 2, 2, 3, 4]))
    else:
        m = rng.choice([0, 1, 2, 3])
        a["df"] = need + m
        a["knots"] = some_knots(m)
    if valid:
        return a, "valid"
    # one (sometimes two) invalid ingredients
    kinds = ["degree_nonint", "degree_neg", "none_none", "df_float", "df_float0", "df_small",
             "len_mismatch", "lower_gt_upper", "knot_below", "knot_above", "nested", "df_float0_ok"]
    tag = []
    for kind in rng.sample(kinds, rng.choice([1, 1, 1, 2])):
        tag.append(kind)
        if kind == "degree_nonint":
            a["degree"] = rng.choice([("float", 2.0), ("float", 1.5), ("str", "3"), ("none",)])
        elif kind == "degree_neg":
            a["degree"] = rng.choice([-1, -2])
        elif kind == "none_none":
            a["df"] = None
            a["knots"] = None
        elif kind == "df_float":
            a["df"] = ("float", rng.choice([4.5, 5.0, 0.5, -1.0]))
        elif kind == "df_float0":
            a["df"] = ("float", 0.0)
        elif kind == "df_float0_ok":       # the one accepted float df: 0.0, degree 0, knots == []
            a["df"] = ("float", 0.0)
            a["degree"] = 0
            a["intercept"] = False
            a["knots"] = [] if rng.random() < 0.7 else None
        elif kind == "df_small":
            d = a["degree"] if isinstance(a["degree"], int) else 3
            a["df"] = d + 1 - (0 if a["intercept"] else 1) - rng.choice([1, 2, 5])
        elif kind == "len_mismatch":
            d = a["degree"] if isinstance(a["degree"], int) else 3
            m = rng.choice([0, 1, 2])
            a["df"] = max(d, 0) + 1 - (0 if a["intercept"] else 1) + m
            a["knots"] = some_knots(m + rng.choice([1, 2]))
        elif kind == "lower_gt_upper":
            a["lower"] = bhi + rng.choice([F(1, 4), 1, 5])
            a["upper"] = blo if rng.random() < 0.5 else a["lower"] - F(1, 8)
        elif kind == "knot_below":
            a["knots"] = (a["knots"] if isinstance(a["knots"], list) else []) + [blo - F(rng.randrange(1, 9), 4)]
            if isinstance(a["df"], int):
                a["df"] += 1
        elif kind == "knot_above":
            a["knots"] = (a["knots"] if isinstance(a["knots"], list) else []) + [bhi + F(rng.randrange(1, 9), 4)]
            if isinstance(a["df"], int):
                a["df"] += 1
        elif kind == "nested":
            a["knots"] = ("nested", rng.choice([1, 2, 3]))
            if rng.random() < 0.5:
                a["df"] = None
    return a, "+".join(sorted(tag))


SINGLE_BOUND_HOW = ("df", "knots", "both", "inner")


def single_bound_args(rng, x, degree, intercept, side, how):
    """ONE explicit bound, on the far side of all the data (lower_bound > max(x) or upper_bound <
    min(x)); the other bound is left to the data range, so the pair is inverted although only one
    value was written.  `how`: no interior knots, requested through df (= the minimum), through
    knots=[] or through both; or "inner": interior knots placed by df at the data quantiles."""
    lo, hi = min(x), max(x)
    need = degree + 1 - (0 if intercept else 1)
    a = dict(df=None, knots=None, degree=degree, intercept=intercept, lower=None, upper=None)
    spread = hi - lo
    gap = rng.choice([F(1, 4), F(1), F(5), F(1000)] + ([spread / 8, spread * 2] if spread > 0 else []))
    if side == "lower":
        a["lower"] = hi + gap
    else:
        a["upper"] = lo - gap
    if how in ("df", "both"):
        a["df"] = need
    if how in ("knots", "both"):
        a["knots"] = []
    if how == "inner":
        a["df"] = need + rng.choice([1, 2, 3])
    return a, f"single_bound_beyond:{side}:{how}"


# ------------------------------------------------------------------------------------------------
# argument views: python kwargs / protocol JSON / formula text
# ------------------------------------------------------------------------------------------------
def bs_kwargs(a):
    kw = {}
    if a["df"] is not None:
        kw["df"] = a["df"][1] if isinstance(a["df"], tuple) else a["df"]
    if a["knots"] is not None:
        if isinstance(a["knots"], tuple):
            kw["knots"] = [[0.0, 1.0] for _ in range(a["knots"][1])]
        else:
            kw["knots"] = [fl(k) for k in a["knots"]]
    d = a["degree"]
    if isinstance(d, tuple):
        kw["degree"] = d[1] if len(d) > 1 else None
    else:
        kw["degree"] = d
    kw["intercept"] = a["intercept"]
    if a["lower"] is not None:
        kw["lower_bound"] = fl(F(a["lower"]))
    if a["upper"] is not None:
        kw["upper_bound"] = fl(F(a["upper"]))
    return kw


def bs_json(a):
    j = {"intercept": a["intercept"]}
    if isinstance(a["df"], tuple):
        j["df"] = {"float": a["df"][1] == 0.0}
    else:
        j["df"] = a["df"]
    if isinstance(a["knots"], tuple):
        j["knots"] = {"nested": a["knots"][1]}
    elif a["knots"] is not None:
        j["knots"] = [qj(k) for k in a["knots"]]
    else:
        j["knots"] = None
    j["degree"] = a["degree"] if isinstance(a["degree"], int) else "nonint"
    j["lower"] = None if a["lower"] is None else qj(a["lower"])
    j["upper"] = None if a["upper"] is None else qj(a["upper"])
    return j


BS_SPELLINGS = ("keyword", "positional", "mixed", "shuffled")


def bs_formula(a, spelling="keyword"):
    """-> (call text, extra namespace) or None when the arguments cannot be spelled.
    `spelling`: every argument by keyword in signature order / all positional
    (`bs(x, df, knots, degree, intercept, lower_bound, upper_bound)`, `None` for an omitted one) /
    df, knots, degree positional and the rest by keyword / keywords in reversed order."""
    parts = ["x"]
    ns = {}
    if isinstance(a["df"], tuple) or isinstance(a["knots"], tuple) or not isinstance(a["degree"], int):
        return None
    if a["degree"] < 0:
        return None            # a unary minus inside a call argument: spelled differently; skip
    if spelling != "keyword":
        if a["knots"] is not None:
            ns["kn"] = [fl(k) for k in a["knots"]]
        if a["lower"] is not None:
            ns["lo_b"] = fl(F(a["lower"]))
        if a["upper"] is not None:
            ns["up_b"] = fl(F(a["upper"]))
        vals = [("df", None if a["df"] is None else str(a["df"])),
                ("knots", None if a["knots"] is None else "kn"),
                ("degree", str(a["degree"])),
                ("intercept", "True" if a["intercept"] else "False"),
                ("lower_bound", None if a["lower"] is None else "lo_b"),
                ("upper_bound", None if a["upper"] is None else "up_b")]
        if spelling == "positional":
            while vals and vals[-1][1] is None:
                vals.pop()
            parts += [v if v is not None else "None" for _, v in vals]
        elif spelling == "mixed":
            parts += [v if v is not None else "None" for _, v in vals[:3]]
            parts += [f"{k}={v}" for k, v in vals[3:] if v is not None]
        else:
            parts += [f"{k}={v}" for k, v in reversed(vals) if v is not None]
        return "bs(" + ", ".join(parts) + ")", ns
    if a["df"] is not None:
        parts.append(f"df={a['df']}")
    if a["knots"] is not None:
        ns["kn"] = [fl(k) for k in a["knots"]]
        parts.append("knots=kn")
    parts.append(f"degree={a['degree']}")
    if a["intercept"]:
        parts.append("intercept=True")
    if a["lower"] is not None:
        ns["lo_b"] = fl(F(a["lower"]))
        parts.append("lower_bound=lo_b")
    if a["upper"] is not None:
        ns["up_b"] = fl(F(a["upper"]))
        parts.append("upper_bound=up_b")
    return "bs(" + ", ".join(parts) + ")", ns


# ------------------------------------------------------------------------------------------------
# implementation observers
# ------------------------------------------------------------------------------------------------
def arr(x):
    return np.array([fl(v) for v in x], dtype=float)


def impl_simple(cls_name, calls):
    """Center / Scale: one instance, a history of calls."""
    from formulae import transforms as T
    inst = getattr(T, cls_name)()
    outs = []
    for x in calls:
        try:
            outs.append([float(v) for v in np.asarray(inst(arr(x))).ravel()])
        except Exception as e:  # noqa
            outs.append({"err": type(e).__name__})
    st = {"mean": inst.mean, "params_set": inst.params_set}
    if hasattr(inst, "std"):
        st["std"] = inst.std
    return outs, st


def _snapshot(common, call_text):
    """state of the transform instance held by the term's call node, right now"""
    try:
        name = call_text if call_text in common.terms else list(common.terms)[0]
        inst = common.terms[name].components[0].call.stateful_transform
    except Exception:  # noqa
        return {}
    snap = {}
    for k in ("_knots", "_degree", "_intercept"):
        v = getattr(inst, k, None)
        if k == "_knots":
            v = None if v is None else [float(t) for t in v]
        snap[k] = v
    return snap


def poly_spellings(d, raw):
    """every way of writing `poly(x, degree=d, raw=raw)` in a formula: positional, keyword (both
    orders), defaults left out, values taken from the evaluation namespace (`dg`, `rw`)"""
    r = "True" if raw else "False"
    out = [f"poly(x, {d}, {r})", f"poly(x, {d}, raw={r})", f"poly(x, degree={d}, raw={r})",
           f"poly(x, raw={r}, degree={d})", "poly(x, dg, rw)", "poly(x, degree=dg, raw=rw)",
           f"poly(x, dg, raw={r})"]
    if not raw:
        out += [f"poly(x, {d})", f"poly(x, degree={d})", "poly(x, dg)", "poly(x, degree=dg)"]
    if d == 1:
        out += [f"poly(x, raw={r})", "poly(x, raw=rw)"]
        if not raw:
            out += ["poly(x)"]
    return out


def poly_default_spelling(d, raw):
    if d == 1 and not raw:
        return "poly(x)"                      # the defaults of Polynomial.__call__
    return f"poly(x, {d}, raw=True)" if raw else f"poly(x, {d})"


# ------------------------------------------------------------------------------------------------
# calling scopes that bind the registry names (transforms / encodings) to the user's own objects
# ------------------------------------------------------------------------------------------------
def _lk_center(v, *a, **k):
    """a stateless look-alike of `center`: subtracts the mean of whatever it is given"""
    v = np.asarray(v, dtype=float)
    return v - v.mean()


def _lk_scale_pop(v, *a, **k):
    """stateless `scale`: mean / population sd of whatever it is given"""
    v = np.asarray(v, dtype=float)
    return (v - v.mean()) / v.std()


def _lk_scale_sample(v, *a, **k):
    """stateless `scale` with the sample sd (what pandas' .std() / sklearn-like helpers give)"""
    v = np.asarray(v, dtype=float)
    return (v - v.mean()) / v.std(ddof=1)


def _lk_fresh(cls_name):
    """a plain function that fits a NEW instance of the library's class on every call: agrees with
    the built-in on the training data, re-fits on later data"""
    def refit(v, *a, **k):
        from formulae import transforms as T
        return getattr(T, cls_name)()(np.asarray(v, dtype=float), *a, **k)
    refit.__name__ = "refit_" + cls_name
    return refit


def _lk_powers(v, degree=1, raw=False, *a, **k):
    """the user's `poly`: the plain powers, whatever `raw` says"""
    v = np.asarray(v, dtype=float)
    return np.column_stack([v ** j for j in range(1, int(degree) + 1)])


def _lk_qr_poly(v, degree=1, raw=False, *a, **k):
    """the user's `poly`: QR of the centred Vandermonde matrix of whatever it is given"""
    v = np.asarray(v, dtype=float)
    q, _ = np.linalg.qr(np.vander(v - v.mean(), int(degree) + 1, increasing=True))
    return q[:, 1:]


def _lk_hat(v, *a, **k):
    """the user's `bs`: two hat functions on the range of whatever it is given"""
    v = np.asarray(v, dtype=float)
    t = (v - v.min()) / ((v.max() - v.min()) or 1.0)
    return np.column_stack([1.0 - t, t])


LOOKALIKES = {
    "center": [("function v - mean(v) (stateless)", lambda n: _lk_center),
               ("function refitting a new Center", lambda n: _lk_fresh("Center"))],
    "scale": [("function (v - mean(v)) / sd(v) (stateless, population sd)", lambda n: _lk_scale_pop),
              ("function (v - mean(v)) / sd(v) (stateless, sample sd)", lambda n: _lk_scale_sample),
              ("function refitting a new Scale", lambda n: _lk_fresh("Scale"))],
    "poly": [("function refitting a new Polynomial", lambda n: _lk_fresh("Polynomial")),
             ("function -> plain powers", lambda n: _lk_powers),
             ("function -> QR of the centred Vandermonde matrix", lambda n: _lk_qr_poly)],
    "bs": [("function refitting a new BSpline", lambda n: _lk_fresh("BSpline")),
           ("function -> two hat functions on the range of its argument", lambda n: _lk_hat)],
}
LOOKALIKES["standardize"] = LOOKALIKES["scale"]


def _shadow_table():
    import c16
    table = dict(c16.SHADOW_OBJECTS)
    for pool in LOOKALIKES.values():
        table.update(dict(pool))
    return table


def gen_scope(r, target):
    """a calling scope for design_matrices: -> {"where": locals / globals of the calling function /
    extra_namespace, "bound": {registry name: description of the object bound to it}}.  The name of
    the transform under test is always bound (to a stateless look-alike function or to an unrelated
    object: number, string, array, None, list, user class, unrelated function); every other name of
    formulae.transforms.TRANSFORMS / formulae.categorical.ENCODINGS with probability 0.35."""
    import c16
    bound = {}
    for nm in c16.registry_names():
        if nm != target and r.random() >= 0.35:
            continue
        pool = c16.SHADOW_OBJECTS
        if nm in LOOKALIKES and r.random() < (0.6 if nm == target else 0.5):
            pool = LOOKALIKES[nm]
        bound[nm] = r.choice(pool)[0]
    return {"where": r.choice(["extra_namespace", "caller_locals", "caller_globals"]), "bound": bound}


def scope_builder(scope, ns, n_rows):
    """design_matrices as called from `scope` (None: the harness's own clean scope)"""
    import c16
    if scope is None:
        from formulae import design_matrices
        return lambda formula, data: design_matrices(formula, data, extra_namespace=ns)
    table = _shadow_table()
    objs = {nm: table[d](n_rows) for nm, d in scope["bound"].items()}
    return c16.make_builder(scope["where"], objs, ns or {})


def impl_formula(call_text, ns, calls, scope=None):
    """the same history through design_matrices / evaluate_new_data; returns per call either the
    matrix of the term (list of rows) or {"err": class}, and per call a snapshot of the instance.
    `scope`: the calling scope binds registry names to the user's own objects (see gen_scope)"""
    import pandas as pd
    outs, snaps = [], []
    x0 = calls[0]
    d = pd.DataFrame({"y": np.arange(len(x0), dtype=float), "x": arr(x0)})
    try:
        dm = scope_builder(scope, ns, len(x0))("y ~ 0 + " + call_text, d)
        common = dm.common
        if call_text not in common.terms and len(common.terms) == 1:
            call_text = list(common.terms)[0]       # the library's own rendering of the call
        outs.append(np.asarray(common[call_text], dtype=float).reshape(len(x0), -1).tolist())
        snaps.append(_snapshot(common, call_text))
    except Exception as e:  # noqa
        return [{"err": type(e).__name__}], [{}]
    for x in calls[1:]:
        try:
            nd = pd.DataFrame({"x": arr(x)})
            new = common.evaluate_new_data(nd)
            outs.append(np.asarray(new[call_text], dtype=float).reshape(len(x), -1).tolist())
        except Exception as e:  # noqa
            outs.append({"err": type(e).__name__})
        snaps.append(_snapshot(common, call_text))
    return outs, snaps


def impl_bs(calls):
    from formulae.transforms import BSpline
    b = BSpline()
    outs = []
    for x, a in calls:
        try:
            m = b(arr(x), **bs_kwargs(a))
            outs.append({"rows": np.asarray(m, dtype=float).tolist(),
                         "knots": [float(v) for v in b._knots], "degree": int(b._degree),
                         "intercept": bool(b._intercept)})
        except Exception as e:  # noqa
            outs.append({"err": type(e).__name__, "params_set": bool(b.params_set)})
    return outs


def impl_poly(calls):
    from formulae.transforms import Polynomial
    p = Polynomial()
    outs = []
    for x, degree, raw in calls:
        try:
            m = p(arr(x), degree, raw)
            outs.append({"cols": np.asarray(m, dtype=float).T.tolist()})
        except Exception as e:  # noqa
            outs.append({"err": type(e).__name__})
    st = {"alpha": {int(k): float(v) for k, v in p.alpha.items()},
          "norms2": {int(k): float(v) for k, v in p.norms2.items()},
          "params_set": bool(p.params_set), "degree": p.degree, "raw": p.raw}
    return outs, st


# ------------------------------------------------------------------------------------------------
# cell comparison
# ------------------------------------------------------------------------------------------------
def cell_matches(cell, v, tol):
    """model Cell (protocol) vs implementation float"""
    if cell == "nan":
        return math.isnan(v)
    if cell == "inf":
        return v == math.inf
    if cell == "-inf":
        return v == -math.inf
    num, den2 = unq(cell[1]), unq(cell[2])
    want = fl(num) / math.sqrt(fl(den2))
    return math.isfinite(v) and close(v, want, tol, want)


# ------------------------------------------------------------------------------------------------
class Run:
    """collects (request, callback) pairs so that the driver is asked once"""

    def __init__(self, res):
        self.res = res
        self.reqs = []
        self.cbs = []

    def add(self, req, cb):
        self.reqs.append(req)
        self.cbs.append(cb)

    def flush(self):
        if not self.reqs:
            return
        answers = ask(self.reqs)
        cbs, reqs = self.cbs, self.reqs
        self.reqs, self.cbs = [], []
        for a, cb, rq in zip(answers, cbs, reqs):
            try:
                cb(a)
            except (ValueError, TypeError, KeyError, IndexError, OverflowError, ZeroDivisionError) as e:
                # an output the comparison code cannot digest is a difference, not a harness crash
                self.res.mismatches.append({"case": {"request": rq.get("op")}, "impl": repr(e),
                                            "model": a, "what": "comparison raised " + type(e).__name__})


def mismatch(res, case, impl, model, what):
    res.mismatches.append({"case": case, "impl": impl, "model": model, "what": what})


def failure(res, case, impl, expected, why, finding=None):
    res.failures.append({"case": case, "impl": impl, "expected": expected, "why": why,
                         "finding": finding})
    if finding:
        res.known_hit[finding] = res.known_hit.get(finding, 0) + 1


# ------------------------------------------------------------------------------------------------
# center / scale
# ------------------------------------------------------------------------------------------------
def case_center_scale(run, which, calls, exact, path, scope=None):
    """which: 'center' | 'scale' | 'standardize'; calls: list of vectors (Fractions);
    `scope`: the calling scope of design_matrices binds registry names (formula path only)"""
    res = run.res
    case = {"t": which, "path": path, "calls": [[str(v) for v in x] for x in calls]}
    cls = "Center" if which == "center" else "Scale"
    if path == "direct":
        outs, st = impl_simple(cls, calls)
    else:
        if scope is not None:
            case["scope"] = scope
            res.count("scope:" + scope["where"])
            res.count(f"scope:{which} bound to " + scope["bound"].get(which, "nothing"))
        outs, _ = impl_formula(f"{which}(x)", None, calls, scope)
        outs = [o if isinstance(o, dict) else
                ([r[0] for r in o] if all(len(r) == 1 for r in o) else {"err": "NOT-ONE-COLUMN"})
                for o in outs]
        st = None
    res.evaluations += 1
    res.count(f"{which}:{path}")
    if any(isinstance(o, dict) for o in outs):
        # the formula path refuses e.g. an empty frame before the transform is reached
        res.count(f"{which}:{path}:error")
        if path == "direct":
            failure(res, case, outs, None, f"{cls} raised on a numeric vector")
        elif any(isinstance(o, dict) and o.get("err") == "NOT-ONE-COLUMN" for o in outs):
            failure(res, case, outs, None, f"{which}(x) is not one column")
        elif scope is not None:
            # what the calling scope binds is no part of the statement: the same frames, seen from a
            # scope that binds nothing, decide whether the transform is reached at all
            clean, _ = impl_formula(f"{which}(x)", None, calls, None)
            if not any(isinstance(o, dict) for o in clean):
                failure(res, case, outs, None, f"{which}(x) gives no column (raised / not one column) "
                        "on numeric vectors that it transforms when the calling scope binds nothing")
        return
    scale_abs = max([1.0] + [abs(fl(v)) for x in calls for v in x])
    tol = 0.0 if (exact and which == "center") else RTOL

    def on_model(ans):
        res.traces += 1
        ok = True
        for o, m in zip(outs, ans["outs"]):
            if which == "center":
                if "nans" in m:
                    good = len(o) == m["nans"] and all(math.isnan(v) for v in o)
                else:
                    want = [unq(v) for v in m["vals"]]
                    if exact:
                        good = len(o) == len(want) and all(
                            math.isfinite(a) and F(a) == b for a, b in zip(o, want))
                    else:
                        good = len(o) == len(want) and all(
                            close(a, fl(b), RTOL, scale_abs) for a, b in zip(o, want))
            else:
                good = len(o) == len(m) and all(cell_matches(c, v, RTOL) for c, v in zip(m, o))
            ok = ok and good
        if st is not None and which == "center" and ans["mean"] is not None and exact:
            ok = ok and math.isfinite(float(st["mean"])) and F(float(st["mean"])) == unq(ans["mean"])
        if st is not None and which != "center" and ans["var"] is not None and unq(ans["var"]) > 0:
            ok = ok and close(float(st["std"]), math.sqrt(fl(unq(ans["var"]))), RTOL,
                              float(st["std"]))
        if not ok:
            mismatch(res, case, outs, ans, "outputs differ")
        if calls[0] and len(set(calls[0])) > 1:
            res.nontrivial.add((which, path, tuple(map(tuple, calls))))

    run.add({"op": "c14_center" if which == "center" else "c14_scale",
             "calls": [[qj(v) for v in x] for x in calls]}, on_model)

    # the contract itself on the implementation's output
    x0, o0 = calls[0], outs[0]
    if not x0 or any(not math.isfinite(v) for o in outs for v in o):
        # empty or constant training data: mean/std are NaN or 0; outside the statement
        res.count(f"{which}:nonfinite_output")
        if which != "center" and len(set(x0)) > 1 or (which == "center" and x0):
            failure(res, case, outs, None, "non-finite output on non-degenerate training data")
        return
    eps = F(0) if tol == 0.0 else F(tol) * F(scale_abs if which == "center" else 1.0)
    req = {"op": "c14_spec", "kind": "center" if which == "center" else "scale", "eps": qj(eps),
           "x": [qj(v) for v in x0], "out": [fj(v) for v in o0],
           "later": [{"x": [qj(v) for v in x], "out": [fj(v) for v in o]}
                     for x, o in zip(calls[1:], outs[1:])]}

    def on_spec(ans):
        bad = [k for k, v in ans.items() if v is not True]
        if bad:
            failure(res, case, outs, None, "contract violated on the implementation's output: "
                    + ", ".join(bad))

    run.add(req, on_spec)


# ------------------------------------------------------------------------------------------------
# bs
# ------------------------------------------------------------------------------------------------
def case_bs(run, calls, tag, path, spelling="keyword", scope=None):
    """calls: [(x, abstract args)]"""
    res = run.res
    case = {"t": "bs", "path": path, "tag": tag,
            "calls": [{"x": [str(v) for v in x], "args": {k: repr(v) for k, v in a.items()}}
                      for x, a in calls]}
    if path == "direct":
        outs = impl_bs(calls)
    else:
        spelled = bs_formula(calls[0][1], spelling)
        if spelled is None:
            return
        text, ns = spelled
        case["spelling"] = spelling
        case["text"] = text
        res.count(f"bs:formula:{spelling}")
        if scope is not None:
            case["scope"] = scope
            res.count("scope:" + scope["where"])
            res.count("scope:bs bound to " + scope["bound"].get("bs", "nothing"))
        mats, snaps = impl_formula(text, ns, [x for x, _ in calls], scope)
        outs = []
        for m, sn in zip(mats, snaps):
            if isinstance(m, dict):
                outs.append(m)
            elif sn.get("_knots") is None or sn.get("_degree") is None:
                outs.append({"err": "NO-STATE(the call node holds no initialised transform)"})
            else:
                outs.append({"rows": m, "knots": sn["_knots"], "degree": int(sn["_degree"]),
                             "intercept": bool(sn["_intercept"])})
        if len(outs) < len(calls):
            calls = calls[:len(outs)]
    res.evaluations += 1
    res.count(f"bs:{path}")
    res.count(f"bs:tag:{tag}")
    if len(res.samples) < 8 and res.evaluations % 997 == 0:
        res.samples.append({"case": case, "impl_first": {k: v for k, v in outs[0].items()
                                                          if k != "rows"}})
    tol = RTOL

    def on_model(ans):
        res.traces += 1
        for i, ((x, a), o, m) in enumerate(zip(calls, outs, ans["results"])):
            i_err, m_err = o.get("err"), m.get("err")
            res.count("bs:impl:" + (i_err or "accepted"))
            if (i_err is None) != (m_err is None):
                mismatch(res, case, o, m, f"call {i}: accepted/refused differently")
            elif i_err is not None:
                if path == "direct" and i_err != m_err:
                    mismatch(res, case, o, m, f"call {i}: error class differs")
            else:
                mk = [unq(v) for v in m["knots"]]
                ok = (len(mk) == len(o["knots"]) and m["degree"] == o["degree"]
                      and m["intercept"] == o["intercept"]
                      and all(close(a_, fl(b_), RTOL, a_) for a_, b_ in zip(o["knots"], mk))
                      and all(len(r) == m["ncols"] for r in o["rows"]) and len(o["rows"]) == len(x))
                if not ok:
                    mismatch(res, case, {k: o[k] for k in ("knots", "degree", "intercept")},
                             {k: m[k] for k in ("knots", "degree", "intercept", "ncols")},
                             f"call {i}: stored parameters / shape differ")
            # validation contract (first call decides; later calls ignore their arguments)
            if i == 0 and x and m.get("valid") is not None:
                valid = m["valid"]
                if i_err is None and not valid:
                    fid = None
                    if m.get("df_float_zero") and m_err is None:
                        fid = KF_DF0
                    failure(res, case, {"accepted": True}, {"valid": False},
                            "invalid bs arguments accepted", fid)
                elif i_err is not None and valid:
                    failure(res, case, o, {"valid": True}, "valid bs arguments refused")
                elif i_err is not None and path == "direct" and i_err != "ValueError" \
                        and not m.get("df_float_zero"):
                    failure(res, case, o, "ValueError", "invalid arguments refused with a class other "
                            "than ValueError")
            if i_err is not None and i == 0:
                break

    run.add({"op": "c14_bs_run",
             "calls": [{"x": [qj(v) for v in x], "args": bs_json(a)} for x, a in calls]}, on_model)

    # basis values at the implementation's own knots, and the contract on the real output
    first = outs[0]
    if "err" in first:
        return
    a0 = calls[0][1]
    for i, ((x, _), o) in enumerate(zip(calls, outs)):
        if "err" in o:
            continue
        knots = [F(v) for v in o["knots"]]
        k = o["degree"]

        def on_eval(ans, o=o, x=x, i=i):
            bad = None
            for r, (row, mrow) in enumerate(zip(o["rows"], ans["rows"])):
                want = [fl(unq(v)) for v in mrow]
                sc = max([1.0] + [abs(w) for w in want])
                if len(row) != len(want) or not all(
                        math.isfinite(a_) and abs(a_ - b_) <= tol * sc for a_, b_ in zip(row, want)):
                    bad = (r, row, want)
                    break
            if bad:
                mismatch(res, case, {"row": bad[1], "x": str(x[bad[0]])}, {"row": bad[2]},
                         f"call {i}: basis values differ from Cox-de Boor on the stored knots")
            o["degenerate"] = ans["degenerate"]
            o["model_rows"] = ans["rows"]

        run.add({"op": "c14_bs_eval", "knots": [qj(v) for v in knots], "degree": k,
                 "intercept": o["intercept"], "x": [qj(v) for v in x]}, on_eval)

        lower, upper = knots[k], knots[len(knots) - k - 1]
        n_inner = len(knots) - 2 * (k + 1)
        df_int = a0["df"] if isinstance(a0["df"], int) else None
        req = {"op": "c14_spec", "kind": "bs", "eps": qj(F(RTOL)), "intercept": o["intercept"],
               "lower": qj(lower), "upper": qj(upper),
               "x": [qj(v) for v in x], "rows": [[fj(v) for v in row] for row in o["rows"]],
               "df": df_int if (df_int is not None and df_int >= 0) else None,
               "n_knots": n_inner, "degree": k,
               "ncols": len(o["rows"][0]) if o["rows"] else 0}

        def on_spec(ans, o=o, x=x, i=i, a0=a0):
            ncols = len(o["rows"][0]) if o["rows"] else None
            if ncols is not None and ncols != ans["expected_cols"]:
                failure(res, case, {"ncols": ncols}, {"ncols": ans["expected_cols"]},
                        f"call {i}: number of columns is not df / knots + degree (+1)")
            for r, h in enumerate(ans["holds"]):
                if h:
                    continue
                fid = None
                deg = o.get("degenerate")
                if deg and deg[r] and o.get("model_rows") is not None:
                    want = [fl(unq(v)) for v in o["model_rows"][r]]
                    if all(abs(a_ - b_) <= tol for a_, b_ in zip(o["rows"][r], want)):
                        fid = KF_UPPER
                failure(res, {**case, "row": r, "x_value": str(x[r])}, {"row": o["rows"][r]},
                        "non-negative; with intercept the row sums to one",
                        f"call {i}: bs contract violated at x inside the boundary knots", fid)
            if any(lower <= v <= upper for v in x) and len(set(x)) > 1:
                res.nontrivial.add(("bs", path, tuple(x), tuple(o["knots"]), o["degree"],
                                    o["intercept"]))

        run.add(req, on_spec)


# ------------------------------------------------------------------------------------------------
# poly
# ------------------------------------------------------------------------------------------------
def case_poly(run, calls, path, same_args, text=None, scope=None):
    """calls: [(x, degree, raw)]; `text`: how the call is written in the formula (formula path)"""
    res = run.res
    case = {"t": "poly", "path": path,
            "calls": [{"x": [str(v) for v in x], "degree": d, "raw": r} for x, d, r in calls]}
    st = None
    if path == "direct":
        outs, st = impl_poly(calls)
    else:
        x0, d0, r0 = calls[0]
        text = text or poly_default_spelling(d0, r0)
        case["text"] = text
        res.count("poly:formula:" + text.replace(str(d0), "D"))
        if scope is not None:
            case["scope"] = scope
            res.count("scope:" + scope["where"])
            res.count("scope:poly bound to " + scope["bound"].get("poly", "nothing"))
        mats, _ = impl_formula(text, {"dg": d0, "rw": bool(r0)}, [x for x, _, _ in calls], scope)
        outs = [m if isinstance(m, dict) else {"cols": np.asarray(m).T.tolist()} for m in mats]
        calls = calls[:len(outs)]
    res.evaluations += 1
    res.count(f"poly:{path}" + ("" if same_args else ":changing_args"))
    big = max([0.0] + [abs(fl(v)) for x, _, _ in calls for v in x])
    tol = RTOL if big < 1e3 else 1e-6
    # the same loss of digits in scale-free form: an offset >= 1000 spreads on top of a small spread
    # (measured on the unchanged library: 8.0e-9 on the degree-5 column of 6 points -512 + [0.01, 0.04],
    # 1.2e-9 on the degree-3 column of 4 distinct points -512 + [0.010, 0.013])
    for x, _, _ in calls:
        if x and 0 < max(x) - min(x) < F(1, 4) and max(abs(v) for v in x) >= 1000 * (max(x) - min(x)):
            tol = 1e-6

    def on_model(ans):
        res.traces += 1
        degenerate = False
        for i, ((x, d, raw), o, m) in enumerate(zip(calls, outs, ans["results"])):
            if ("err" in o) != ("err" in m):
                mismatch(res, case, o, m, f"call {i}: accepted/refused differently")
                continue
            if "err" in o:
                res.count("poly:refused")
                continue
            if "raw" in m:
                ok = len(m["raw"]) == len(o["cols"])
                for mc, oc in zip(m["raw"], o["cols"]):
                    for mv, ov in zip(mc, oc):
                        mv = unq(mv)
                        if exact_float(mv):
                            ok = ok and math.isfinite(ov) and F(ov) == mv
                        else:
                            ok = ok and close(ov, fl(mv), 1e-12, fl(mv))
                if not ok:
                    mismatch(res, case, o, m, f"call {i}: raw powers differ")
                continue
            ok = len(m["ortho"]) == len(o["cols"])
            seen = [v for xx, _, _ in calls[:i + 1] for v in xx]
            width = fl(max(seen) - min(seen)) if seen else 0.0
            delta = 2.0 ** -52 * max([0.0] + [abs(fl(v)) for v in seen])
            for k, (mc, oc) in enumerate(zip(m["ortho"], o["cols"]), 1):
                n2 = unq(mc["n2"])
                if n2 is None or n2 == 0 or any(v is None for v in mc["p"]):
                    degenerate = True
                    break       # a zero norm: later columns are NaN / rounding noise
                s = math.sqrt(fl(n2))
                # conditioning of column k with respect to the rounding of the data themselves:
                # the abscissae are known to delta = u * max|x| once centred, a monic degree-k
                # polynomial with its roots inside the data moves by at most k * width^(k-1) * delta,
                # and the column is that polynomial divided by sqrt(n2).  Only where this first-order
                # bound (x4) exceeds the fixed tolerance does it replace it (a tight cluster next to
                # far points under an offset: measured 4.0e-4 / bound 1.6e-3 on the degree-5 column
                # of 1e6 + {0.5, 0.5625, 0.625, 0.96875, 1, -8})
                tol_k = max(tol, 4 * delta * k * width ** (k - 1) / s)
                if tol_k > tol:
                    res.count("poly:column judged at its conditioning bound")
                for pv, ov in zip(mc["p"], oc):
                    want = fl(unq(pv)) / s
                    ok = ok and math.isfinite(ov) and abs(ov - want) <= tol_k * max(1.0, abs(want))
            if not ok:
                mismatch(res, case, o, m, f"call {i}: orthogonal polynomial columns differ")
        if degenerate:
            res.count("poly:degenerate(zero norm)")
        elif st is not None:
            for name in ("alpha", "norms2"):
                mm = {k: unq(v) for k, v in ans[name]}
                im = st[name]
                if set(mm) != set(im) or not all(
                        mm[k] is not None and close(im[k], fl(mm[k]), tol * 100, fl(mm[k])) for k in mm):
                    mismatch(res, case, st, {"alpha": ans["alpha"], "norms2": ans["norms2"]},
                             f"memoised {name} differs")
            if st["params_set"] != ans["params_set"]:
                mismatch(res, case, st, ans, "params_set differs")

    run.add({"op": "c14_poly_run",
             "calls": [{"x": [qj(v) for v in x], "degree": d, "raw": r} for x, d, r in calls]},
            on_model)

    # contract on the training output
    x0, d0, r0 = calls[0]
    o0 = outs[0]
    if "err" in o0:
        if d0 >= 1:
            failure(res, case, o0, None, "poly refused a valid degree")
        return
    # "poly(x, d) returns d columns", "raw=True returns exactly those powers": on the training data
    # and, when the call is the same, on every later evaluation of the same term / instance
    if same_args and (r0 or len(set(x0)) > d0):
        for i, ((y, _, _), o) in enumerate(zip(calls[1:], outs[1:]), 1):
            if "err" in o or not y:
                continue
            if r0 and all(exact_float(v ** k) for v in y for k in range(1, d0 + 1)):
                def on_raw_later(ans, i=i, o=o):
                    if not ans["holds"]:
                        failure(res, {**case, "call": i}, o, "x^k, k = 1..degree",
                                f"call {i} (later data): raw=True did not return exactly the "
                                f"{d0} powers")
                run.add({"op": "c14_spec", "kind": "poly_raw", "x": [qj(v) for v in y],
                         "degree": d0, "cols": [[fj(v) for v in c] for c in o["cols"]]},
                        on_raw_later)
            else:
                def on_ncols_later(ans, i=i, o=o):
                    if not ans["ncols_ok"]:
                        failure(res, {**case, "call": i}, {"ncols": len(o["cols"])},
                                {"ncols": d0}, f"call {i} (later data): poly(x, {d0}) did not "
                                f"return {d0} columns")
                run.add({"op": "c14_spec", "kind": "poly_ortho", "eps": qj(F(1)), "degree": d0,
                         "cols": [[fj(v) if math.isfinite(v) else qj(0) for v in c]
                                  for c in o["cols"]]}, on_ncols_later)
    if r0:
        vals_ok = all(exact_float(v ** k) for v in x0 for k in range(1, d0 + 1))
        if vals_ok:
            def on_raw(ans):
                if not ans["holds"]:
                    failure(res, case, o0, "x^k", "raw=True did not return exactly the powers")
            run.add({"op": "c14_spec", "kind": "poly_raw", "x": [qj(v) for v in x0], "degree": d0,
                     "cols": [[fj(v) for v in c] for c in o0["cols"]]}, on_raw)
        else:
            def on_ncols(ans):
                if not ans["ncols_ok"]:
                    failure(res, case, {"ncols": len(o0["cols"])}, {"ncols": d0},
                            f"poly(x, {d0}, raw=True) did not return {d0} columns")
            run.add({"op": "c14_spec", "kind": "poly_ortho", "eps": qj(F(1)), "degree": d0,
                     "cols": [[fj(v) if math.isfinite(v) else qj(0) for v in c]
                              for c in o0["cols"]]}, on_ncols)
        res.nontrivial.add(("poly_raw", tuple(x0), d0))
        return
    if len(set(x0)) <= d0:
        return          # outside the statement (needs more than `degree` distinct values)
    if any(not math.isfinite(v) for c in o0["cols"] for v in c):
        failure(res, case, o0, None, "non-finite orthogonal polynomial on data with > degree "
                "distinct values")
        return

    def on_ortho(ans):
        bad = [k for k, v in ans.items() if v is not True]
        if bad:
            failure(res, case, o0, None, "orthonormality contract violated: " + ", ".join(bad))
        # same span as x .. x^d (numerical: least-squares residual of each power on [1, columns])
        xs = arr(x0)
        c = np.mean(xs)
        A = np.column_stack([np.ones(len(xs))] + [np.array(col) for col in o0["cols"]])
        for k in range(1, d0 + 1):
            target = (xs - c) ** k
            coef, *_ = np.linalg.lstsq(A, target, rcond=None)
            r = np.linalg.norm(A @ coef - target)
            if r > 1e-6 * max(1.0, np.linalg.norm(target)):
                failure(res, case, o0, None, f"(x - mean)^{k} is not in the span of 1 and the "
                        "poly columns")
                break

    # "the same map on later data" for poly (not claimed by the statement for poly, checked as a
    # test): column k on later data must be the degree-k polynomial that interpolates the training
    # pairs (x_i, column_k(x_i)) -- exact Newton interpolation on the rationalised floats
    if same_args and len(outs) > 1:
        pts = sorted(set(x0))
        lo, hi = pts[0], pts[-1]
        for (y, _, _), o in zip(calls[1:], outs[1:]):
            if "err" in o or len(o["cols"]) != d0:
                continue        # the column count on later data is judged above
            for k in range(1, d0 + 1):
                step = max(1, len(pts) // (k + 1))
                nodes = (pts[::step] + pts[-(k + 1):])[:k + 1]
                nodes = sorted(set(nodes))
                if len(nodes) < k + 1:
                    nodes = pts[:k + 1]
                vals = [F(o0["cols"][k - 1][x0.index(t)]) for t in nodes]
                coef = list(vals)                     # divided differences
                for j in range(1, len(nodes)):
                    for i in range(len(nodes) - 1, j - 1, -1):
                        coef[i] = (coef[i] - coef[i - 1]) / (nodes[i] - nodes[i - j])
                bad = None
                for r, v in enumerate(y):
                    if not (lo - (hi - lo) <= v <= hi + (hi - lo)):
                        continue
                    acc = coef[-1]
                    for i in range(len(nodes) - 2, -1, -1):
                        acc = acc * (v - nodes[i]) + coef[i]
                    got = o["cols"][k - 1][r]
                    if not (math.isfinite(got) and abs(got - fl(acc)) <= 1e-6 * max(1.0, abs(fl(acc)))):
                        bad = (str(v), got, fl(acc))
                        break
                if bad:
                    failure(res, case, {"x": bad[0], "value": bad[1]}, {"value": bad[2]},
                            f"poly column {k} on later data is not the training polynomial "
                            "(the transform is not the same map on later data)")
                    break
            else:
                continue
            break

    run.add({"op": "c14_spec", "kind": "poly_ortho", "eps": qj(F(tol) * 10), "degree": d0,
             "cols": [[fj(v) for v in c] for c in o0["cols"]]}, on_ortho)
    res.nontrivial.add(("poly", tuple(x0), d0))


# ------------------------------------------------------------------------------------------------
def explore(tier, seed, res=None, replay=None):
    res = res or Result()
    res.rule = ("a case = one transform instance x one history of calls (training vector, then "
                "later vectors) x one argument combination x one path (direct / formula, the call "
                "written positionally, by keyword, with defaults left out or with values from the "
                "namespace; the formula path also from calling scopes (caller locals / caller globals / "
                "extra_namespace) that bind the registry names of transforms and encodings to unrelated "
                "objects or stateless look-alike functions); vectors incl. small spreads (rates in [0.01, 0.09]) alone and on an offset; "
                "bs: also a single explicit bound beyond the data range, with and without interior knots; "
                "non-trivial = training vector with >= 2 distinct values (center/scale), at least "
                "one x inside the boundary knots (bs), accepted raw / > degree distinct values "
                "(poly); distinct by (vector, stored parameters)")
    warnings.simplefilter("ignore")
    np.seterr(all="ignore")
    run = Run(res)
    if replay is not None:
        replay_case(run, replay)
        run.flush()
        return res

    # ---- fixed small exhaustive part: df x degree x intercept on three vectors ----------------
    fixed = [[F(v) for v in (0, 1, 2, 3, 4, 5, 6, 7)],
             [F(v) for v in (0, 1, 2, 2, 2, 2)],              # more than half at the maximum
             [F(10 ** 6 + v) for v in (0, 3, 1, 4, 1, 5, 9, 2, 6)]]
    for x in fixed:
        for degree in range(0, 6):
            for intercept in (False, True):
                for df in range(0, 11):
                    a = dict(df=df, knots=None, degree=degree, intercept=intercept, lower=None,
                             upper=None)
                    case_bs(run, [(x, a), (x[:3] + [x[-1] + 1], a)], "grid", "direct")
        for degree in range(0, 8):
            for raw in (False, True):
                case_poly(run, [(x, degree, raw), (x[:4], degree, raw)], "direct", True)
    # ---- a single explicit bound beyond the data range: every degree x intercept x side x way of
    # asking for no interior knots (and with interior knots), on the fixed vectors ----------------
    rng_sb = rng_for(seed, "c14", "single_bound", "grid")
    for xi, x in enumerate(fixed):
        for degree in range(0, 6):
            for intercept in (False, True):
                for side in ("lower", "upper"):
                    for hi_, how in enumerate(SINGLE_BOUND_HOW):
                        a, tag = single_bound_args(rng_sb, x, degree, intercept, side, how)
                        case_bs(run, [(x, a), (x[:3] + [x[-1] + 1], a)], tag, "direct")
                        if (xi + degree + hi_) % 6 == 0:
                            case_bs(run, [(x, a), (x[:3] + [x[-1] + 1], a)], tag, "formula",
                                    BS_SPELLINGS[(degree + hi_ + int(intercept)) % len(BS_SPELLINGS)])
    res.exhaustive = True
    run.flush()

    n_vec = 300 if tier == "quick" else 10000
    rng = rng_for(seed, "c14", "gen")
    rng_sp = rng_for(seed, "c14", "spelling")
    for it in range(n_vec):
        # the formula path (design_matrices + evaluate_new_data) is ~10x slower than a direct call:
        # thorough exercises it on every second vector
        formula = tier == "quick" or it % 2 == 0
        # the passes from a calling scope that binds registry names: quick on every vector (one of
        # center/scale/standardize, bs, poly in turn), thorough on every fourth
        ks = it if tier == "quick" else (it // 4 if it % 4 == 0 else None)
        # ---- center / scale --------------------------------------------------------------------
        x, style = gen_vector(rng, exact_mean=True)
        if rng.random() < 0.03:
            x = []
        res.count("vector:" + style)
        res.count("n:" + str(len(x)))
        later = [gen_new(rng, x or [F(0)]) for _ in range(rng.choice([1, 2]))]
        if rng.random() < 0.1:
            later.append([])
        for which in ("center", "scale"):
            case_center_scale(run, which, [x] + later, True, "direct")
        if formula and it % 3 == 0 and len(x) >= 2:
            which = ("center", "scale", "standardize")[(it // 3) % 3]
            case_center_scale(run, which, [x] + [l for l in later if l], True, "formula")
        if ks is not None and ks % 2 == 1 and len(x) >= 2:
            # the same contracts when design_matrices is called from a scope that binds the registry
            # names (own random stream; the expected result never depends on the bindings)
            which = ("scale", "center", "standardize")[(ks // 2) % 3]
            case_center_scale(run, which, [x] + [l for l in later if l], True, "formula",
                              gen_scope(rng_for(seed, "c14", "scope", "cs", it), which))
        if it % 4 == 0:      # inexact mean: tolerance comparison
            y, _ = gen_vector(rng, exact_mean=False)
            case_center_scale(run, "center", [y, gen_new(rng, y)], False, "direct")

        # ---- bs --------------------------------------------------------------------------------
        x, style = gen_vector(rng)
        if rng.random() < 0.02:
            x = x[:1]
        later = gen_new(rng, x)
        for j in range(6):
            a, tag = gen_bs_args(rng, x, valid=True)
            a2, _ = gen_bs_args(rng, later, valid=rng.random() < 0.7)
            case_bs(run, [(x, a), (later, a2)], tag, "direct")
            if j == 0 and formula:
                case_bs(run, [(x, a), (later, a)], tag, "formula", rng_sp.choice(BS_SPELLINGS))
            if j == 1 and ks is not None and ks % 3 == 0:
                rsc = rng_for(seed, "c14", "scope", "bs", it)
                case_bs(run, [(x, a), (later, a)], tag, "formula", rsc.choice(BS_SPELLINGS),
                        gen_scope(rsc, "bs"))
        for j in range(3):
            a, tag = gen_bs_args(rng, x, valid=False)
            case_bs(run, [(x, a), (later, a)], tag, "direct")
            if j == 0 and formula:
                case_bs(run, [(x, a), (later, a)], tag, "formula", rng_sp.choice(BS_SPELLINGS))
        if rng.random() < 0.05:
            a, tag = gen_bs_args(rng, x, valid=True)
            case_bs(run, [([], a), (x, a)], "empty_x", "direct")
        # a single explicit bound on the far side of the generated vector (own random stream)
        if x:
            rsb = rng_for(seed, "c14", "single_bound", it)
            for j in range(2):
                a, tag = single_bound_args(rsb, x, rsb.choice([0, 1, 2, 3, 3, 4, 5]), rsb.random() < 0.5,
                                           rsb.choice(["lower", "upper"]), rsb.choice(SINGLE_BOUND_HOW))
                case_bs(run, [(x, a), (later, a)], tag, "direct")
                if j == 0 and formula and it % 4 == 0:
                    case_bs(run, [(x, a), (later, a)], tag, "formula", rsb.choice(BS_SPELLINGS))

        # ---- poly ------------------------------------------------------------------------------
        x, style = gen_vector(rng, style=rng.choice(["int", "dyadic", "ties", "offset", "wide", "small",
                                                     "small_offset"]))
        res.count("poly:vector:" + style)
        later = gen_new(rng, x, scaled=True)
        for j in range(3):
            d = rng.randrange(1, 7)
            raw = rng.random() < 0.4
            case_poly(run, [(x, d, raw), (later, d, raw)], "direct", True)
            if j <= 1 and len(x) >= 2 and formula:
                # through the formula interface: training, then two later frames (the second one
                # re-evaluates the term once more), in one of the spellings of the same call
                case_poly(run, [(x, d, raw), (later, d, raw), (gen_new(rng_sp, x, scaled=True), d, raw)],
                          "formula", True, rng_sp.choice(poly_spellings(d, raw)))
            if j == 2 and len(x) >= 2 and ks is not None and ks % 3 == 1:
                rsc = rng_for(seed, "c14", "scope", "poly", it)
                case_poly(run, [(x, d, raw), (later, d, raw), (gen_new(rsc, x, scaled=True), d, raw)],
                          "formula", True, rsc.choice(poly_spellings(d, raw)), gen_scope(rsc, "poly"))
        # direct API with changing arguments: degree/raw are overwritten, alpha/norms2 memoised
        d1, d2 = rng.randrange(0, 5), rng.randrange(0, 7)
        case_poly(run, [(x, d1, rng.random() < 0.3), (later + x, d2, rng.random() < 0.3),
                        (x, max(d1, d2), False)], "direct", False)
        if len(run.reqs) > 20000:
            run.flush()
    run.flush()
    return res


def parse_frac(s):
    return F(s)


def replay_case(run, c):
    t = c.get("t")
    if t in ("center", "scale", "standardize"):
        calls = [[parse_frac(v) for v in x] for x in c["calls"]]
        case_center_scale(run, t, calls, True, c.get("path", "direct"), c.get("scope"))
    elif t == "bs":
        calls = []
        for cc in c["calls"]:
            a = {k: eval(v, {"Fraction": F}) for k, v in cc["args"].items()}  # repr of plain values
            calls.append(([parse_frac(v) for v in cc["x"]], a))
        case_bs(run, calls, c.get("tag", "replay"), c.get("path", "direct"),
                c.get("spelling", "keyword"), c.get("scope"))
    elif t == "poly":
        calls = [([parse_frac(v) for v in cc["x"]], cc["degree"], cc["raw"]) for cc in c["calls"]]
        case_poly(run, calls, c.get("path", "direct"), True, c.get("text"), c.get("scope"))
