"""C01 — formula grammar. Correspondence of scanner/parser with the Lean model, evaluation of the
specification (reference parse under the documented table) on the implementation's output,
whitespace / redundant-parenthesis relations."""
import itertools

from common import Result, ask, rng_for

ASSUMPTIONS = ["ASCII input only (Python's unicode isalpha/isdigit are not modelled)",
               "token literal values (int()/float() of the lexeme) are checked on the Python side only",
               "the Python AST is observed through a structural serialisation (harness/c01.py:ser)"]
TRUSTED = []

TOKEN_ALPHABET = ["a", "b", "0", "1", "2", "1.5", "'s'", "`q`", "True",
                  "(", ")", "[", "]", "{", "}", ",", ".", "+", "-", "//", "/", "**", "*", "!=", "!",
                  "==", "=", "<=", "<", ">=", ">", "%", "~", ":", "|"]
# one representative per precedence class, for longer strings
TOKEN_ALPHABET_SMALL = ["a", "1", "(", ")", ",", "+", "*", ":", "**", "|", "~", "=", "<", "[", "]",
                        "{"]
CHAR_ALPHABET = list("ab10._'\"`()[]{},+-/*!=<>%~:| ")
CHAR_ALPHABET_SMALL = list("a1.'`(*=<~ _\"/!)")


# ------------------------------------------------------------------------------------------------
# implementation observer
# ------------------------------------------------------------------------------------------------
def _literal_ok(tok):
    k, lx, lit = tok.kind, tok.lexeme, tok.literal
    if k == "NUMBER":
        want = float(lx) if "." in lx else int(lx)
        return type(lit) is type(want) and lit == want
    if k == "STRING":
        return lit == lx[1:-1]
    if k == "PYTHON_LITERAL":
        return repr(lit) == lx
    return lit is None


def ser(node, numq):
    """Structural rendering of the Python AST, the counterpart of `Expr.sexp`."""
    from formulae import expr as E
    if isinstance(node, E.Assign):
        return f"(assign {ser(node.name, numq)} {ser(node.value, numq)})"
    if isinstance(node, E.Grouping):
        return f"(group {ser(node.expression, numq)})"
    if isinstance(node, E.Binary):
        left = ser(node.left, numq)
        right = ser(node.right, numq)
        return f"(bin {node.operator.kind} {left} {right})"
    if isinstance(node, E.Unary):
        return f"(un {node.operator.kind} {ser(node.right, numq)})"
    if isinstance(node, E.Call):
        callee = ser(node.callee, numq)
        return "(call " + callee + "".join(" " + ser(a, numq) for a in node.args) + ")"
    if isinstance(node, E.Variable):
        if node.level is None:
            return f"(var {node.name.lexeme})"
        return f"(var {node.name.lexeme} {ser(node.level, numq)})"
    if isinstance(node, E.QuotedName):
        return f"(bq {node.expression.lexeme})"
    if isinstance(node, E.Literal):
        v = node.value
        if node.lexeme is not None:
            return f"(lit {node.lexeme})"
        if isinstance(v, str):
            return f"(lit {v})"
        if v is None or isinstance(v, bool):
            return f"(lit {v!r})"
        # NUMBER: the AST keeps only the value; recover the lexeme from the token stream, in order
        if not numq:
            return "(lit !NO-NUMBER-TOKEN)"
        tok = numq.pop(0)
        if type(tok.literal) is not type(v) or tok.literal != v:
            return f"(lit !VALUE-MISMATCH {v!r} {tok.lexeme})"
        return f"(lit {tok.lexeme})"
    return f"(!unknown {type(node).__name__})"


def impl(s, add_intercept=True):
    from formulae.scanner import Scanner
    from formulae.parser import Parser
    out = {}
    try:
        tokens = Scanner(s).scan(add_intercept)
    except Exception as e:  # noqa
        return {"err": "scan", "cls": type(e).__name__}
    if not tokens or tokens[-1].kind != "EOF":
        return {"err": "scan", "cls": "NO-EOF"}
    body = tokens[:-1]
    out["toks"] = [[t.kind, t.lexeme] for t in body]
    out["literals_ok"] = all(_literal_ok(t) for t in body)
    try:
        ast = Parser(tokens).parse()
    except Exception as e:  # noqa
        out["err"] = "parse"
        out["cls"] = type(e).__name__
        return out
    out["ast"] = ser(ast, [t for t in body if t.kind == "NUMBER"])
    return out


def describe(s):
    """model_description names, for the relational checks."""
    from formulae import model_description
    try:
        m = model_description(s)
    except Exception as e:  # noqa
        return {"err": type(e).__name__}
    return {"response": None if m.response is None else m.response.term.name,
            "common": [t.name for t in m.common_terms], "group": [t.name for t in m.group_terms]}


def describe_direct(s):
    """the same names through Scanner -> Parser -> Resolver called directly (what model_description
    is documented to do), for the history check: the public entry point must read every string
    from its own characters, whatever it has read before"""
    from formulae.parser import Parser
    from formulae.resolver import Resolver
    from formulae.scanner import Scanner
    from formulae.terms.terms import Model
    try:
        m = Resolver(Parser(Scanner(s).scan()).parse()).resolve()
        if not isinstance(m, Model):
            m = Model(m)
    except Exception as e:  # noqa
        return {"err": type(e).__name__}
    return {"response": None if m.response is None else m.response.term.name,
            "common": [t.name for t in m.common_terms], "group": [t.name for t in m.group_terms]}


def strip_groups(sexp):
    """the structural rendering with every `(group X)` replaced by `X`"""
    out, i = [], 0
    closers = []            # for every open paren: does its closing paren get dropped?
    while i < len(sexp):
        if sexp.startswith("(group ", i):
            closers.append(True)
            i += len("(group ")
        elif sexp[i] == "(":
            closers.append(False)
            out.append("(")
            i += 1
        elif sexp[i] == ")":
            if not closers.pop():
                out.append(")")
            i += 1
        else:
            out.append(sexp[i])
            i += 1
    return "".join(out)


def lookalikes(s, rng):
    """strings that differ from `s` only in whitespace but are other token streams (a blank inside
    a name, a number, `**`, a comparison, a back-quoted name) or the same one (all gaps removed)"""
    out = ["".join(s.split())] if "`" not in s and "'" not in s and '"' not in s else []
    pos = [i for i in range(1, len(s)) if s[i - 1] != " " and s[i] != " "]
    for i in rng.sample(pos, min(4, len(pos))):
        out.append(s[:i] + " " + s[i:])
    if "  " not in s and " " in s:
        out.append(s.replace(" ", "  "))
    return out


LOOKALIKE_BASES = ["y ~ ab + cd", "(a + b) ** 2", "y ~ f(x, k = 10)", "y ~ `a b` + c", "y ~ x1:z2",
                   "y ~ f(x == 10) + (1 | gr)", "resp ~ 0.5:ab", "y ~ `ab` + `a b`", "y ~ f('a b', \"c\")"]


# ------------------------------------------------------------------------------------------------
# independent sentence generator: random trees, pretty-printed with minimal parentheses
# ------------------------------------------------------------------------------------------------
LEVEL_OPS = [["|"], ["==", "!=", "<=", "<", ">=", ">"], ["-", "+"], ["*", "/"], [":"], ["**"]]
KIND = {"|": "PIPE", "==": "EQUAL_EQUAL", "!=": "BANG_EQUAL", "<=": "LESS_EQUAL", "<": "LESS",
        ">=": "GREATER_EQUAL", ">": "GREATER", "-": "MINUS", "+": "PLUS", "*": "STAR", "/": "SLASH",
        ":": "COLON", "**": "STAR_STAR", "~": "TILDE"}
L_UNARY, L_ATOM = 6, 7


def gen_tree(rng, depth, top=True):
    r = rng.random()
    if depth <= 0 or r < 0.18:
        k = rng.randrange(9)
        if k < 3:
            return ("var", rng.choice(["x", "y", "z", "np.log", "a_1", "g"]))
        if k == 3:
            return ("num", rng.choice(["0", "1", "2", "10", "0.5", ".5", "3.25"]))
        if k == 4:
            return ("str", rng.choice(["'a'", '"b c"', "'x+y'"]))
        if k == 5:
            return ("bq", rng.choice(["`w x`", "`a+b`", "`1`"]))
        if k == 6:
            return ("py", rng.choice(["True", "False", "None"]))
        if k == 7:
            return ("subset", rng.choice(["y", "resp"]), rng.choice([("var", "lvl"), ("str", "'A'")]))
        return ("var", "f")
    if r < 0.62:
        lv = rng.randrange(len(LEVEL_OPS))
        return ("bin", lv, rng.choice(LEVEL_OPS[lv]), gen_tree(rng, depth - 1, False),
                gen_tree(rng, depth - 1, False))
    if r < 0.72:
        return ("un", rng.choice(["+", "-"]), gen_tree(rng, depth - 1, False))
    if r < 0.88:
        n = rng.choice([0, 1, 1, 2, 3])
        args = []
        for _ in range(n):
            if rng.random() < 0.25:
                args.append(("kw", rng.choice(["df", "ref", "k"]), gen_tree(rng, depth - 2, False)))
            else:
                args.append(gen_tree(rng, depth - 1, True))
        callee = ("var", rng.choice(["f", "np.exp", "C", "scale"]))
        if rng.random() < 0.1:
            callee = ("call", ("var", "g"), [])
        return ("call", callee, args)
    if r < 0.93:
        return ("brace", gen_tree(rng, depth - 1, True))
    if r < 0.97 and top:
        return ("tilde", gen_tree(rng, depth - 1, False), gen_tree(rng, depth - 1, False))
    return ("paren", gen_tree(rng, depth - 1, True))


def level(t):
    k = t[0]
    if k == "bin":
        return t[1]
    if k == "un":
        return L_UNARY
    if k in ("tilde", "kw"):
        return -1
    return L_ATOM


def render(t, need):
    """-> (tokens, sexp); wraps in parentheses when the node's level is below `need`."""
    toks, sx = _render(t)
    if level(t) < need:
        return ["("] + toks + [")"], f"(group {sx})"
    return toks, sx


def _render(t):
    k = t[0]
    if k == "var":
        return [t[1]], f"(var {t[1]})"
    if k in ("num", "str", "py"):
        return [t[1]], f"(lit {t[1]})"
    if k == "bq":
        return [t[1]], f"(bq {t[1]})"
    if k == "subset":
        lt, _ = _render(t[2])
        inner = f"(lit {t[2][1]})"
        return [t[1], "["] + lt + ["]"], f"(var {t[1]} {inner})"
    if k == "bin":
        lt, ls = render(t[3], t[1])
        rt, rs = render(t[4], t[1] + 1)
        return lt + [t[2]] + rt, f"(bin {KIND[t[2]]} {ls} {rs})"
    if k == "un":
        rt, rs = render(t[2], L_UNARY)
        return [t[1]] + rt, f"(un {KIND[t[1]]} {rs})"
    if k == "tilde":
        lt, ls = render(t[1], 0)
        rt, rs = render(t[2], 2)
        return lt + ["~"] + rt, f"(bin TILDE {ls} {rs})"
    if k == "kw":
        rt, rs = render(t[2], 2)
        return [t[1], "="] + rt, f"(assign (var {t[1]}) {rs})"
    if k == "call":
        ct, cs = render(t[1], L_ATOM)
        toks = ct + ["("]
        sx = "(call " + cs
        for i, a in enumerate(t[2]):
            at, asx = render(a, -1)
            toks += ([","] if i else []) + at
            sx += " " + asx
        return toks + [")"], sx + ")"
    if k == "brace":
        it, isx = render(t[1], -1)
        return ["{"] + it + ["}"], f"(call (var I) {isx})"
    if k == "paren":
        it, isx = render(t[1], -1)
        return ["("] + it + [")"], f"(group {isx})"
    raise ValueError(k)


WORDY = set("abcdefghijklmnopqrstuvwxyzABCDEFGHIJKLMNOPQRSTUVWXYZ0123456789._")
PAIRS = {("*", "*"), ("/", "/"), ("=", "="), ("!", "="), ("<", "="), (">", "=")}


def join(tokens, rng, wild):
    """Render a token list with random admissible gaps."""
    out = []
    for i, t in enumerate(tokens):
        if i:
            a, b = tokens[i - 1][-1], t[0]
            need = (a in WORDY and b in WORDY) or (a, b) in PAIRS
            if wild:
                n = rng.choice([0, 0, 1, 1, 2, 3])
                if need and n == 0:
                    n = 1
                out.append("".join(rng.choice(" \t\n\r") for _ in range(n)))
            else:
                out.append(" ")
        out.append(t)
    if wild:
        out.insert(0, rng.choice(["", " ", "\n"]))
        out.append(rng.choice(["", " ", "\t"]))
    return "".join(out)


CONTEXTS = ["f ( {} )", "( {} )", "{{ {} }}", "a [ {} ]", "a ~ {}", "f ( a , {} )", "f ( {} , a )",
            "a + ( {} ) * a"]
PUNCT = [",", ")", "(", "]", "[", "}", "{", "~", "=", "|", "a", "1", "+", "*", ":", "**", "<"]


def damage(toks, rng):
    """Delete, insert, duplicate or swap one token of a sentence."""
    toks = list(toks)
    k = rng.randrange(4)
    i = rng.randrange(len(toks))
    if k == 0 and len(toks) > 1:
        del toks[i]
    elif k == 1:
        toks.insert(rng.randrange(len(toks) + 1), rng.choice(PUNCT))
    elif k == 2:
        toks.insert(i, toks[i])
    elif i + 1 < len(toks):
        toks[i], toks[i + 1] = toks[i + 1], toks[i]
    else:
        toks.append(rng.choice(PUNCT))
    return toks


# formula-language sentences for the "redundant parentheses never change the model" relation
def gen_formula(rng, depth):
    atoms = ["a", "b", "c", "f(x)", "g"]
    if depth <= 0 or rng.random() < 0.3:
        return rng.choice(atoms), True
    op = rng.choice(["+", "+", "-", ":", "*", "/"])
    l, _ = gen_formula(rng, depth - 1)
    r, _ = gen_formula(rng, depth - 1)
    if op in (":", "*", "/", "-") and rng.random() < 0.7:
        return f"{l} {op} {r}", False
    return f"{l} {op} {r}", False


def reparen(s, rng):
    """Wrap atoms in redundant parentheses: `a` -> `(a)`, `((a))`."""
    out = []
    for tok in s.split(" "):
        if tok and tok[0].isalpha() and rng.random() < 0.5:
            n = rng.choice([1, 2])
            out.append("(" * n + tok + ")" * n)
        else:
            out.append(tok)
    return " ".join(out)


# ------------------------------------------------------------------------------------------------
def explore(tier, seed, res=None, replay=None):
    res = res or Result()
    res.rule = ("token strings over a 35-symbol alphabet enumerated up to a length bound, alone and "
                "inside 8 bracketing contexts, character strings over a 30-character alphabet, "
                "random grammar trees pretty-printed with minimal parentheses and random whitespace, "
                "each also with one token deleted/inserted/duplicated/swapped; "
                "the fully parenthesised form (Lean `groupAll`) of accepted inputs re-run through "
                "the real scanner and parser; "
                "non-trivial = scans into >= 2 tokens; distinct by token sequence")
    def all_cases():
      # (kind, string, expected sexp or None), produced lazily: the thorough tier has millions
      if replay is not None:
        yield ("replay", replay["s"], replay.get("expected"))
      else:
        n_tok = 3 if tier == "quick" else 4
        for n in range(1, n_tok + 1):
            for combo in itertools.product(TOKEN_ALPHABET, repeat=n):
                yield (("tok", " ".join(combo), None))
        n_small = 5
        for n in range(n_tok + 1, n_small + 1):
            for j, combo in enumerate(itertools.product(TOKEN_ALPHABET_SMALL, repeat=n)):
                if tier == "quick" and n == 5 and (j + seed) % 8:
                    continue
                yield (("tok", " ".join(combo), None))
        # short token strings inside every bracketing context (call arguments, parentheses, braces,
        # subset brackets, right of `~`): near-misses such as `f ( a , )`, `( a ) )`, `a [ a , ]`
        n_ctx = 3 if tier == "quick" else 4
        for ctx in CONTEXTS:
            for n in range(0, n_ctx + 1):
                for combo in itertools.product(TOKEN_ALPHABET_SMALL, repeat=n):
                    yield (("ctx", ctx.format(" ".join(combo)), None))
        n_chr = 3 if tier == "quick" else 4
        for n in range(1, n_chr + 1):
            for combo in itertools.product(CHAR_ALPHABET, repeat=n):
                yield (("chr", "".join(combo), None))
        for combo in itertools.product(CHAR_ALPHABET_SMALL, repeat=n_chr + 1):
            yield (("chr", "".join(combo), None))
        rng = rng_for(seed, "c01", "gen")
        n_gen = 2000 if tier == "quick" else 50000
        depth = 8 if tier == "quick" else 14
        for i in range(n_gen):
            t = gen_tree(rng, rng.randrange(1, depth + 1))
            toks, sx = render(t, -1)
            if toks.count("~") > 1:
                sx = "!reject"      # a second ~ must be refused
            yield (("gen", join(toks, rng, wild=False), sx))
            yield (("genws", join(toks, rng, wild=True), sx))
            # one-token damage to a deep sentence: mostly strings that have to be refused
            yield (("mut", " ".join(damage(toks, rng)), None))

    res.exhaustive = replay is None
    seen = set()
    fp_cases = []

    def judge(cases, collect_fp):
        """Run implementation and model on `cases`, compare, evaluate the specification."""
        # implementation
        # generated sentences are scanned without the implicit `1 +` so that the expected tree is
        # the generating tree; all other cases go through the default path
        impl_out = [impl(s, want is None) for _, s, want in cases]
        # model (regenerated table) and specification (documented table)
        model_out = ask([{"op": "c01", "s": s, "noint": want is not None} for _, s, want in cases])
        for (kind, s, want), io, mo in zip(cases, impl_out, model_out):
            res.evaluations += 1
            res.count("kind:" + kind)
            m, sp = mo["model"], mo["spec"]
            if m.get("err") == "scan:non_ascii":
                res.count("skipped:non_ascii")
                continue
            res.traces += 1
            case = {"s": s, "kind": kind}
            if want is not None:
                case["expected"] = want     # lets `--replay` take the same (no implicit `1 +`) path
            # canonical views
            i_view = (io.get("toks"), io.get("ast"), io.get("err"))
            m_view = (m.get("toks"), m.get("ast"), (m.get("err") or "").split(":")[0] or None)
            s_view = (sp.get("toks"), sp.get("ast"), (sp.get("err") or "").split(":")[0] or None)
            if i_view != m_view:
                res.mismatches.append({"case": case, "impl": io, "model": m})
            why = None
            if i_view != s_view:
                if (io.get("ast") is None) != (sp.get("ast") is None):
                    why = "accepted/rejected differently from the documented grammar"
                elif io.get("toks") != sp.get("toks"):
                    why = "token stream differs"
                elif io.get("ast") != sp.get("ast"):
                    why = "tree differs from the documented precedence/associativity"
                # same verdict, different stage of rejection: not a property failure
            if io.get("ast") is not None and sp.get("yield_ok") is False:
                why = "accepted although a token is not part of the tree"
            if io.get("toks") is not None and not io.get("literals_ok", True):
                why = "token literal does not equal the value of its lexeme"
            if want == "!reject":
                if io.get("ast") is not None:
                    why = "sentence with a second ~ accepted"
            elif want is not None and io.get("ast") != want:
                why = ("fully parenthesised form of an accepted formula not parsed into the "
                       "parenthesised tree" if kind == "fp" else
                       "generated sentence not parsed into its generating tree")
            if sp.get("ast") is not None and sp.get("fp_ok") is not True:
                # instance of theorem C01_fullparen on the reference parse; cannot happen while the
                # Lean build is sound
                why = "reference parse of the fully parenthesised form differs (C01_fullparen)"
            if why:
                res.failures.append({"case": case, "impl": io,
                                     "expected": sp if want is None else want, "why": why})
            if io.get("toks") and len(io["toks"]) >= 2:
                res.nontrivial.add(hash(tuple(map(tuple, io["toks"]))))
            res.count("impl:" + ("accepted" if io.get("ast") else "rejected_" + io.get("err", "?")))
            if len(res.samples) < 6 and kind in ("gen", "genws") and io.get("ast"):
                res.samples.append({"s": s, "ast": io["ast"]})
            elif len(res.samples) < 8 and kind == "tok" and res.evaluations % 9973 == 0:
                res.samples.append({"s": s, "impl": io})
            elif len(res.samples) < 10 and kind == "fp" and res.evaluations % 997 == 0:
                res.samples.append({"s": s, "ast": io.get("ast")})
            # the fully parenthesised form of what the *reference* accepts goes through the real
            # scanner and parser in a second round: it has to come back as `groupAll` of the tree
            if collect_fp and sp.get("ast") is not None and sp.get("fp_src") is not None:
                nfp[0] += 1
                if kind in ("gen", "genws", "replay") or nfp[0] % fp_every == 0:
                    fp_cases.append(("fp", sp["fp_src"], sp["fp_ast"]))

    nfp = [0]
    fp_every = 5 if tier == "quick" else 20
    chunk = []
    for c in all_cases():
        chunk.append(c)
        if len(chunk) >= 100000:
            judge(chunk, collect_fp=True)
            chunk = []
            if fp_cases:
                judge(fp_cases, collect_fp=False)
                del fp_cases[:]
            if len(res.failures) + len(res.mismatches) > 20000:
                res.notes.append("stopped early: more than 20000 failing cases")
                break
    if chunk:
        judge(chunk, collect_fp=True)
    if fp_cases:
        judge(fp_cases, collect_fp=False)

    if replay is not None and replay.get("kind") == "misplaced-assignment":
        # (replay of a misplaced keyword assignment: refused, or some name of the result shows it)
        d = describe(replay["s"])
        name = replay.get("name")
        names = [d.get("response") or ""] + d.get("common", []) + d.get("group", [])
        if "err" not in d and name and not any(name in nm for nm in names):
            res.failures.append({"case": dict(replay), "impl": d, "expected": "refused (or a result "
                                 f"that shows the name {name!r})", "finding": None,
                                 "why": f"accepted with `{name} =` silently dropped"})
    if replay is None:
        # relation: redundant parentheses and whitespace never change the model description
        rng = rng_for(seed, "c01", "rel")
        n_rel = 400 if tier == "quick" else 5000
        for i in range(n_rel):
            f, _ = gen_formula(rng, rng.randrange(1, 5))
            base = "y ~ " + f
            variants = [reparen(base, rng), join(base.split(" "), rng, wild=True)]
            d0 = describe(base)
            res.evaluations += 1
            res.count("kind:relation")
            for v in variants:
                d1 = describe(v)
                if d0 != d1:
                    res.failures.append({"case": {"s": base, "variant": v, "kind": "relation"},
                                         "impl": d1, "expected": d0,
                                         "why": "whitespace / redundant parentheses changed the model"})
        # two call terms whose arguments are different readings (they differ by parentheses that
        # matter) are two terms: nothing of what was written is silently dropped
        pops = ["+", "-", "*", "/", "**", "<", "=="]
        for o1 in pops:
            for o2 in pops:
                flat = f"a {o1} b {o2} c"
                for grouped in (f"(a {o1} b) {o2} c", f"a {o1} (b {o2} c)"):
                    t1, t2 = impl(f"I({grouped})", False), impl(f"I({flat})", False)
                    if t1.get("ast") is None or t2.get("ast") is None:
                        continue
                    if strip_groups(t1["ast"]) == strip_groups(t2["ast"]):
                        continue                      # the parentheses were redundant
                    res.evaluations += 1
                    res.count("kind:distinct-readings")
                    for head in ("y ~ ", "y ~ 0 + "):
                        f2 = f"{head}I({grouped}) + I({flat})"
                        d = describe(f2)
                        n_calls = len([t for t in d.get("common", []) if t != "Intercept"])
                        if "err" in d or n_calls != 2:
                            res.failures.append({"case": {"s": f2, "kind": "distinct-readings"},
                                                 "impl": d, "expected": "two call terms",
                                                 "why": "two call terms with different readings of "
                                                        "their arguments are not both kept"})
        # a keyword assignment `name = value` has a meaning directly in a call's argument list only.
        # The grammar also admits it inside parentheses / braces; whatever the later stages make of
        # such a sentence, they may not drop `name =` and carry on with the value alone (tenth
        # seeded wave, C01_P): the sentence is refused, or the name written shows in the result
        rng_a = rng_for(seed, "c01", "assign")
        shapes = ["y ~ a + ({n} = {v})", "y ~ a:({n} = {v})", "y ~ ({n} = {v}) * a", "y ~ ({n} = {v})",
                  "y ~ f(x, ({n} = {v}))", "y ~ I(({n} = {v}) + 1)", "y ~ a + {{({n} = {v})}}",
                  "y ~ (a | ({n} = {v}))", "y ~ (({n} = {v}) | g)", "({n} = {v}) ~ a",
                  "y ~ a - ({n} = {v})", "y ~ a / ({n} = {v}) + b", "y ~ (({n} = {v}))",
                  "y ~ f(({n} = {v}), k = 2)", "y ~ a + ({n} = {v}) ** 2"]
        for shape in shapes:
            for _ in range(2 if tier == "quick" else 12):
                n = rng_a.choice(["kw", "weights", "lam", "q7", "ref"])
                v = rng_a.choice(["b", "2", "x", "g", "b + c", "f(x)", "'s'"])
                text = shape.format(n=n, v=v)
                if rng_a.random() < 0.5:
                    text = join(text.split(" "), rng_a, wild=False)
                res.evaluations += 1
                res.count("kind:misplaced-assignment")
                d = describe(text)
                if "err" in d:
                    continue
                names = [d.get("response") or ""] + d.get("common", []) + d.get("group", [])
                if not any(n in nm for nm in names):
                    res.failures.append({"case": {"s": text, "kind": "misplaced-assignment", "name": n},
                                         "impl": d, "expected": "refused (or a result that shows the "
                                         f"name {n!r})",
                                         "why": f"accepted with `{n} =` silently dropped"})
        # history: the public entry point reads every string from its own characters — a well-formed
        # formula first, then look-alikes that differ from it by whitespace only, then it again
        n_hist = 150 if tier == "quick" else 3000
        bases = list(LOOKALIKE_BASES)
        for i in range(n_hist):
            f, _ = gen_formula(rng, rng.randrange(1, 4))
            f = f.replace("a", rng.choice(["a", "ab", "a1"])).replace("c", rng.choice(["c", "cd", "10"]))
            bases.append(rng.choice(["y ~ ", "yy ~ ", ""]) + f + rng.choice(["", " ** 2", " + (x1 | gr)"]))
        for base in bases:
            seq = [base] + lookalikes(base, rng) + [base]
            res.evaluations += 1
            res.count("kind:history")
            for v in seq:
                got, want = describe(v), describe_direct(v)
                if got != want:
                    res.failures.append({"case": {"history": seq[:seq.index(v) + 1], "s": v,
                                                  "kind": "history"},
                                         "impl": got, "expected": want,
                                         "why": "model_description reads a string differently after "
                                                "having read a look-alike (not from its own characters)"})
                    break
    return res
