"""C02 — term algebra. model_description vs the Lean model of terms.py (correspondence) and vs the
Wilkinson-Rogers denotation (Spec.C02.den, evaluated by the driver on the implementation's output)."""
import itertools

from common import Result, ask, rng_for, known_findings

ASSUMPTIONS = [
    "terms are compared by name (':'-joined component names); generated atoms have distinct names "
    "(call atoms that differ only in a keyword value or a literal argument print differently and are "
    "different components: Model/Resolver.lean keys a call by callee, positional arguments and the "
    "keyword->value dict)",
    "numeric literals are small plain decimals (str(float) without exponent form)",
    "the specification reads the text with the DOCUMENTED precedence table (Spec.C01.refParse = parse "
    "under Spec.C01.documentedTable) and Spec.C02.den is evaluated on that tree; the model of the "
    "implementation reads it with the table regenerated from parser.py.  The two are equal on the "
    "unchanged tree (theorem Tie.parser_table); where they differ the verdict comes from the documented "
    "reading, and no known-finding class is applied (a class explains a failure only where the "
    "implementation builds the documented tree)",
    "twin operands: every operator is also given two operands that denote the SAME set of terms -- the "
    "same parenthesised sum of two / three of {a, b, c} in every pair of orders, alone and inside "
    "+ - : * / ** and on either side of '|' (exhaustive), and random trees S op S' with S' = S up to the "
    "order of the operands of '+'",
    "differences of group items: `L - (e | g)` with the right operand ONE parenthesised group item of "
    "every kind -- a lone group-specific intercept (1 | g) (resolves to a single GroupSpecificTerm), a "
    "slope with its implicit intercept, a slope without (0 + x, x + 0, -1 + x), an explicit intercept, "
    "several slopes, an interaction (these resolve to a Model) -- over two grouping factors, applied to "
    "models that contain the item, part of it, a superset of it, or nothing of it (exhaustive over one "
    "group item on the left, alone / next to a common term / subtracted twice; random sums of one to "
    "three items followed by one or two such subtractions and further additions)",
    "in-place mutation of Model objects is unobservable through Resolver (each value consumed once): "
    "checked by this correspondence, not assumed",
]
TRUSTED = ["CPython operator dispatch (NotImplemented -> TypeError), list.remove, "
           "itertools.product/combinations are modelled by hand in Model/Terms.lean"]

LEAVES = ["a", "b", "c", "f(x)", "f(x, 2)", "0", "1", "-1", "2"]
# call atoms that are pairwise DIFFERENT components although they share the callee and the first
# argument: they differ only in the value of one keyword argument, only in a literal positional
# argument, only in the keyword's name, or only in the presence of a second keyword. Term identity
# (Term.components / LazyCall.__eq__) must keep them apart in unions, differences and the collapsing
# of repeated factors, and must still merge two occurrences of the same one.
CALL_LEAVES = ["a", "f(x, k=1)", "f(x, k=2)", "f(x, 1)", "f(x, 2)", "f(x, j=1)", "f(x, k=1, j=1)"]
# the same idea for the random deeper trees: families of look-alike call atoms (keyword value a
# number / string / bool / None / nested call / arithmetic, several keywords, positional literal)
CALL_FAMILIES = [
    ["f(x, k=1)", "f(x, k=2)", "f(x, k=3)"],
    ["f(x, 2)", "f(x, 3)", "f(x, 2, 3)"],
    ["f(x, k='u')", "f(x, k='w')", "f(x, k=\"u\")"],
    ["f(x, k=True)", "f(x, k=False)", "f(x, k=None)"],
    ["f(x, k=2, j=1)", "f(x, k=2, j=5)", "f(x, k=5, j=1)"],
    ["f(x, k=g(z))", "f(x, k=g(w))", "f(x, k=h(z))"],
    ["f(x, k=z + 1)", "f(x, k=z + 2)", "f(x, k=z - 1)"],
    ["np.clip(x, a_min=0)", "np.clip(x, a_min=1)", "np.clip(x, a_max=1)"],
    ["scale(x, center=True)", "scale(x, center=False)", "scale(x)"],
    ["f(x, 'u')", "f(x, 'w')", "f(z, 'u')"],
    ["{x + 1}", "{x + 2}", "I(x + 1)"],
]
OPS = ["+", "-", ":", "*", "/", "**", "|"]
PREC = {"|": 0, "+": 2, "-": 2, "*": 3, "/": 3, ":": 4, "**": 5}
CORPUS = ["y ~ (a + b) * (b + a)", "y ~ (a + b) / (c:d + e)", "y ~ f(g(x)) + f(x)",
          "y ~ (a + f(x, 2)) * (b + c)", "y ~ (0 + x | g)", "y ~ (x + 0 | g)", "y ~ a + (b - 1)",
          "y ~ 1 - a", "y ~ (a + b + c) ** 3", "y ~ a / b / c", "y ~ (a + b | g) - (a | g)",
          "y ~ (x | g / h)", "y ~ a:(a:b + b)", "y ~ f(x, k=2, j=3) + f(x, j=3, k=2)",
          # found while proving C02_plain_refines: duplicates kept by Model(*terms) exposed by ** and /
          "y ~ ((p + r + p:q):q) ** 2", "y ~ ((p + r + p:q):q) / z", "y ~ ((b * g) : (d + g)) ** 3",
          "y ~ (a + b) ** 01", "y ~ (a + b) ** 02", "a | (g + h) * (g + k)"]
FINDING = {"D3": "KF-C02-D3", "D4": "KF-C02-D4", "D5": "KF-C02-D5", "D22": "KF-C02-D22",
           "D24": "KF-C02-D24", "D25": "KF-C02-D25",
           "D26": "KF-C02-D26"}


def render(t, need=-1):
    if isinstance(t, str):
        # a negative literal is a unary expression (level 6)
        if t.startswith("-") and need > 6:
            return "(" + t + ")"
        return t
    op, l, r = t
    p = PREC[op]
    s = f"{render(l, p)} {op} {render(r, p + 1)}"
    if op == "|" or p < need:
        return "(" + s + ")"
    return s


def trees(n, leaves):
    if n == 1:
        for x in leaves:
            yield x
        return
    for k in range(1, n):
        for l in trees(k, leaves):
            for r in trees(n - k, leaves):
                for op in OPS:
                    yield (op, l, r)


def rand_tree(rng, n, leaves):
    if n == 1:
        return rng.choice(leaves)
    k = rng.randrange(1, n)
    op = rng.choice(["+", "+", "+", "-", ":", "*", "/", "**", "|", ":", "*"])
    r = rand_tree(rng, n - k, leaves)
    if op == "**" and rng.random() < 0.8:
        r = rng.choice(["2", "3", "1", "2"])
    return (op, rand_tree(rng, k, leaves), r)


def sum_tree(terms):
    t = terms[0]
    for x in terms[1:]:
        t = ("+", t, x)
    return t


def reorder_sums(rng, t):
    """the same tree with the operands of '+' (commutative: same set of terms) swapped at random"""
    if isinstance(t, str):
        return t
    op, l, r = t
    l, r = reorder_sums(rng, l), reorder_sums(rng, r)
    if op == "+" and rng.random() < 0.5:
        return (op, r, l)
    return (op, l, r)


TWIN_CONTEXTS = ["{}", "d + {}", "{} + d", "({}):d", "d:({})", "({}) - a", "({}) ** 2", "(x | {})",
                 "({} | g)", "({}) / d", "d * ({})"]


def twin_forms(tier, seed):
    """an operator whose two operands denote the SAME set of terms: the same parenthesised sum
    twice, written in the same or in another order -- (a + b) op (b + a) -- for every operator, alone
    and inside other operators / on either side of '|'; exhaustive over sums of two and three of
    {a, b, c} in every order, plus random pairs (S, S') with S a random tree and S' the same tree
    with operands of '+' swapped"""
    out = []
    atoms = ["a", "b", "c"]
    for n in (2, 3):
        for left in itertools.permutations(atoms, n):
            for right in itertools.permutations(left):
                for op in OPS:
                    core = render((op, sum_tree(list(left)), sum_tree(list(right))), 99)
                    core = core[1:-1] if op != "|" else core
                    for ctx in TWIN_CONTEXTS:
                        out.append("y ~ " + ctx.format(core))
    rng = rng_for(seed, "c02", "twins")
    leaves = ["a", "b", "c", "d", "g", "f(x)", "f(x, 2)", "f(x, k=2)", "a", "b", "1", "0"]
    for _ in range(1500 if tier == "quick" else 60000):
        while True:
            S = rand_tree(rng, rng.randrange(2, 5), leaves)
            if not isinstance(S, str) and (S[0] == "+" or rng.random() < 0.3):
                break
        S2 = reorder_sums(rng, S) if rng.random() < 0.8 else S
        node = (rng.choice(OPS), S, S2)
        k = rng.randrange(4)
        if k == 1:
            node = (rng.choice(OPS), node, rand_tree(rng, rng.randrange(1, 4), leaves))
        elif k == 2:
            node = (rng.choice(OPS), rand_tree(rng, rng.randrange(1, 4), leaves), node)
        elif k == 3:
            node = ("|", rng.choice(["x", "1", "x + a", "0 + x"]), node)
        out.append(rng.choice(["y ~ ", "y ~ ", "", "y ~ 0 + "]) + render(node))
    return out


# group items: the effect side of '|' as an intercept, a slope (implicit intercept), a slope with
# the intercept removed, an explicit intercept, several slopes, an interaction
GROUP_EFFECTS = ["1", "x", "0 + x", "1 + x", "x + 0", "x + z", "0 + x + z", "x:z", "-1 + x"]
GROUP_FACTORS = ["g", "h"]


def group_difference_forms(tier, seed):
    """'-' whose right operand is ONE parenthesised group item `(e | g)`, for every kind of item
    (a lone group-specific intercept resolves to a single GroupSpecificTerm, the others to a Model),
    applied to models in which the item -- or part of it, or a superset of it -- is present, and to
    models in which it is absent (other grouping factor, no group term at all): exhaustive over
    `L - (e | g)` with L one group item, alone / after a common term / before one; plus random sums of
    one to three items (common atoms and group items) followed by one or two such subtractions and
    possibly further additions"""
    out = []
    items = [f"({e} | {g})" for e in GROUP_EFFECTS for g in GROUP_FACTORS]
    for left in items + ["a", "a + b"]:
        for sub in items:
            for ctx in ("{l} - {s}", "a + {l} - {s}", "{l} + a - {s}", "{l} - {s} + b", "{l} - {s} - {s}"):
                out.append("y ~ " + ctx.format(l=left, s=sub))
    rng = rng_for(seed, "c02", "group-differences")
    commons = ["a", "b", "x", "a:b", "f(x)", "1", "0"]
    for _ in range(1500 if tier == "quick" else 40000):
        parts = [rng.choice(items) if rng.random() < 0.65 else rng.choice(commons)
                 for _ in range(rng.randrange(1, 4))]
        text = " + ".join(parts)
        present = [p for p in parts if p in items]
        for _ in range(rng.choice([1, 1, 2])):
            if present and rng.random() < 0.7:
                # an item of the model, or the lone intercept / the slope of one of its items
                sub = rng.choice(present)
                if rng.random() < 0.5:
                    g = sub[:-1].split(" | ")[1]
                    sub = f"({rng.choice(['1', 'x', '0 + x', 'z'])} | {g})"
            else:
                sub = rng.choice(items)
            text += " - " + sub
            if rng.random() < 0.3:
                text += " + " + (rng.choice(items) if rng.random() < 0.5 else rng.choice(commons))
        out.append(rng.choice(["y ~ ", "y ~ ", "", "y ~ 0 + "]) + text)
    return out


def impl(s):
    from formulae import model_description
    try:
        m = model_description(s)
    except Exception as e:  # noqa
        return {"err": type(e).__name__}
    try:
        return {"response": None if m.response is None else m.response.term.name,
                "common": [t.name for t in m.common_terms],
                "group": [t.name for t in m.group_terms]}
    except Exception as e:  # noqa
        return {"err": "name:" + type(e).__name__}


def explore(tier, seed, res=None, replay=None):
    res = res or Result()
    res.rule = ("operator trees over {a,b,c,f(x),f(x, 2),0,1,-1,2} x {+,-,:,*,/,**,|} and over the "
                "look-alike call atoms {a,f(x, k=1),f(x, k=2),f(x, 1),f(x, 2),f(x, j=1),f(x, k=1, j=1)} "
                "(calls differing only in a keyword value / a literal argument / a keyword name) "
                "rendered with minimal parentheses, all trees up to a leaf bound plus random deeper "
                "ones (general alphabet, and families of call atoms differing only in one keyword "
                "value or literal: numbers, strings, bools, None, nested calls, arithmetic); "
                "plus twin operands (S op S' with S, S' the same sum in any two orders, every operator "
                "and context); plus differences `L - (e | g)` of one parenthesised group item of every kind "
                "(lone intercept, slope, 0 + x, several slopes, interaction) from models that contain it, part "
                "of it, or nothing of it; the denotation is taken on the parse under the documented precedence table; "
                "non-trivial = parses and lies in the documented language (Spec.C02.Lang); distinct "
                "by rendered string")
    forms = []
    if replay is not None:
        forms = [replay["s"]]
    else:
        seen = set()
        # corpus first: witnesses of every recorded finding (open or fixed) and past failures
        import json as _json, os as _os
        from common import VERIF
        with open(_os.path.join(VERIF, "known_findings.json")) as f:
            for k in _json.load(f):
                if k["property"] == "C02" and "s" in k.get("witness", {}):
                    seen.add(k["witness"]["s"])
                    forms.append(k["witness"]["s"])
        for s0 in CORPUS:
            if s0 not in seen:
                seen.add(s0)
                forms.append(s0)
        nmax = 3
        for n in range(1, nmax + 1):
            for t in trees(n, LEAVES):
                s = "y ~ " + render(t)
                if s not in seen:
                    seen.add(s)
                    forms.append(s)
        # look-alike call atoms: all trees up to three leaves over CALL_LEAVES
        for n in range(2, nmax + 1):
            for t in trees(n, CALL_LEAVES):
                s = "y ~ " + render(t)
                if s not in seen:
                    seen.add(s)
                    forms.append(s)
        if tier == "thorough":
            for t in trees(4, ["a", "f(x, k=1)", "f(x, k=2)", "f(x, 2)", "1"]):
                s = "y ~ " + render(t)
                if s not in seen:
                    seen.add(s)
                    forms.append(s)
            for t in trees(4, ["a", "b", "f(x, 2)", "0", "1"]):
                s = "y ~ " + render(t)
                if s not in seen:
                    seen.add(s)
                    forms.append(s)
        res.exhaustive = True
        rng = rng_for(seed, "c02", "rand")
        big = ["a", "b", "c", "d", "g", "h", "f(x)", "f(x, 2)", "np.log(x)", "`w z`", "{x + 1}",
               "f(x, k=2)", "0", "1", "-1", "2", "a", "b", "g"]
        n_rand = 5000 if tier == "quick" else 200000
        max_leaves = 9 if tier == "quick" else 14
        n_fam = 2500 if tier == "quick" else 100000
        for i in range(n_rand + n_fam):
            if i < n_rand:
                alphabet = big
            else:
                # one or two families of look-alike call atoms, each member repeated so that two
                # members of one family (or the same member twice) meet in most trees
                fams = rng.sample(CALL_FAMILIES, rng.choice([1, 1, 2]))
                alphabet = [x for fam in fams for x in fam] * 2 + rng.sample(
                    ["a", "b", "g", "h", "0", "1", "-1", "2"], 4)
            t = rand_tree(rng, rng.randrange(2, max_leaves + 1), alphabet)
            lhs = rng.choice(["y ~ ", "y ~ ", "y ~ ", "", "y[a] ~ ", "p(y, n) ~ ", "y ~ 0 + ",
                              "y ~ -1 + "])
            s = lhs + render(t)
            if s not in seen:
                seen.add(s)
                forms.append(s)

        # operators whose two operands denote the same set of terms
        for s in twin_forms(tier, seed):
            if s not in seen:
                seen.add(s)
                forms.append(s)

        # '-' applied to one parenthesised group item, present in / absent from the model
        n0 = len(forms)
        for s in group_difference_forms(tier, seed):
            if s not in seen:
                seen.add(s)
                forms.append(s)
        res.count("group-difference forms", len(forms) - n0)

    impl_out = [impl(s) for s in forms]
    out = ask([{"op": "c02", "s": s, "impl": io} for s, io in zip(forms, impl_out)])
    open_ids = {k["id"] for k in known_findings("C02")}
    for s, io, mo in zip(forms, impl_out, out):
        res.evaluations += 1
        if "parse_err" in mo:
            res.count("parse_error")
            if "err" not in io:
                res.mismatches.append({"case": {"s": s}, "impl": io, "model": mo})
            sp = mo.get("spec") or {}
            if sp.get("lang"):
                # the grammar extracted from parser.py refuses a text that the documented grammar
                # reads as a formula of the language: judged against the documented reading
                res.count("lang")
                res.count("parse_error:documented-grammar-accepts")
                res.nontrivial.add(s)
                if not sp["holds"]:
                    res.failures.append({"case": {"s": s}, "impl": io, "classes": [], "finding": None,
                                         "expected": {k: sp[k] for k in ("response", "common", "group")},
                                         "why": "formula of the documented language (documented "
                                                "precedence table) refused" if "err" in io else
                                                "model_description differs from the Wilkinson-Rogers "
                                                "expansion of the documented reading of the text"})
            continue
        if mo.get("ambiguous_identity"):
            res.count("skipped:ambiguous_identity")
            continue
        res.traces += 1
        m, sp = mo["model"], mo["spec"]
        i_err, m_err = "err" in io, "err" in m
        case = {"s": s}
        mismatch = False
        if i_err != m_err:
            mismatch = True
        elif not i_err and (io["response"], io["common"], io["group"]) != (
                m["response"], m["common"], m["group"]):
            mismatch = True
        if mismatch:
            res.mismatches.append({"case": case, "impl": io, "model": m})
        # model-vs-spec cross-check: what C02_refines_partial says can never happen — a formula of
        # the documented language outside every gap class that the model resolves to something
        # whose reading (semOfModel) is not semEq to the denotation, ordered factor lists included
        if sp.get("lang"):
            # the shape hypothesis of C02_refines_partial (right-hand side starts with the implicit
            # `1`, or the formula is one bare `eff | grp`): every scanned formula of the language
            # must satisfy it (a test of the scanner/parser, the theorem assumes it)
            res.count("scanner_shape:" + str(mo.get("scanner_shape")))
            if mo.get("scanner_shape") is not True:
                res.mismatches.append({"case": case, "impl": io, "model": m,
                                       "why": "a scanned formula of the documented language is "
                                              "outside the shape C02_refines_partial covers"})
        if sp.get("lang") and not m_err and not mo.get("classes"):
            res.count("sem_ok:" + str(m.get("sem_ok")))
            if m.get("sem_ok") is not True:
                res.mismatches.append({"case": case, "impl": io, "model": m,
                                       "why": "model-vs-spec: semEq (semOfModel (describe e)) "
                                              "(den e) is not true outside the gap classes "
                                              "(contradicts theorem C02_refines_partial)"})
        res.count("impl:" + ("error:" + io["err"] if i_err else "ok"))
        if sp.get("lang"):
            res.count("lang")
            res.nontrivial.add(s)
            if not sp["holds"]:
                classes = list(mo.get("classes", []))
                fid = None
                # a known finding explains a failure only where the implementation reads the text
                # as documented (same tree from the documented and the extracted precedence table)
                agrees = mo.get("parse_agrees", True)
                if not agrees:
                    res.count("documented-parse-differs-from-extracted-parse")
                if not mismatch and agrees:
                    for c in classes:
                        if FINDING.get(c) in open_ids:
                            fid = FINDING[c]
                            break
                if fid:
                    res.known_hit[fid] = res.known_hit.get(fid, 0) + 1
                res.failures.append({"case": case, "impl": io, "classes": classes, "finding": fid,
                                     "expected": {k: sp[k] for k in ("response", "common", "group")},
                                     "why": ("model_description differs from the Wilkinson-Rogers "
                                             "expansion" + ("" if agrees else " of the documented reading "
                                                            "of the text (Spec.C01.documentedTable; the "
                                                            "grammar of parser.py builds another tree)"))
                                     if not i_err else
                                     "formula of the documented language refused"})
            elif len(res.samples) < 8 and res.evaluations % 3001 == 0:
                res.samples.append({"s": s, "impl": io})
        else:
            res.count("outside_lang")
    return res
