"""C16 — built-in helper functions and aliases keep their documented pointwise meaning."""
import math
import operator
from fractions import Fraction

import numpy as np
import pandas as pd

import designs
from common import Result, ask, rng_for, known_findings

ASSUMPTIONS = [
    "the pointwise meaning of binary / offset / prop / I (Spec.C16) is evaluated by the Lean driver on "
    "columns of real designs, at training time and on new frames; alias synonymy is decided by the "
    "registry tie (object identity, by `decide`) and by paired real runs",
    "binary on new frames: the statement's prediction clause is D14 (binary is not stateful), recorded "
    "under C06; here binary is judged at training time and for refusal of an absent success value",
    "every frame (quick tier: every second frame) is judged twice: with a clean namespace, and with the helper / alias / encoding names "
    "of the registry (TRANSFORMS + ENCODINGS) bound to unrelated objects (numbers, arrays, strings, "
    "user functions of the same name) in extra_namespace, in the locals or in the globals of the "
    "function that calls design_matrices; the expected columns never depend on those bindings",
    "formula-level synonymy: a formula with two calls of one helper that differ only in a keyword "
    "value (binary success=, T ref=, S omit=) is built in every helper/alias spelling of the two "
    "calls; all spellings must give the same design (training and new frame), the design must have "
    "one term per call, and binary columns are judged by Spec.C16.binaryExpected, Treatment-coded "
    "columns by Spec.C04.decodeLabel (driver op c04_spec)",
    "binary on float columns: columns whose distinct values lie close together (large magnitude with "
    "steps of about one, i.e. relative differences below 1e-5; tiny values below 1e-8, with and "
    "without 0.0; ordinary fractions) with the success value omitted, equal to a value of the column, "
    "or absent but next to one (relative 1e-6 .. 3e-9 / a fraction of the spacing), written as a "
    "decimal literal or passed as a variable; the values reach Spec.C16.binaryExpected as exact "
    "integers (the exact fraction of every binary64 times the common denominator of the column and "
    "the success value: injective and monotone, and the spec uses equality and order only), so "
    "equality is exact and a close-but-absent success value must be refused",
    "offset / I at prediction: besides the new frame as drawn, a new frame with the numeric dtypes the "
    "other way round (fractions in the columns that are int64 at training time, int64 integers in the "
    "float columns); offsets over integer typed columns, integer-valued expressions and calls "
    "(offset(n), offset(n * 2), offset(s + n), offset(np.abs(kz)), ...); the column must hold the "
    "values of the new frame (expected vector = the argument's arithmetic on the frame's columns)",
    "comparisons inside I(...) / {...} / offset(...): every comparison operator (<, <=, >, >=, ==, !=) "
    "between a numeric column (float x, z; int64 k, kz, n, s) and a literal threshold that is a value of "
    "that column in the training frame or in the new frame (so rows sit exactly on it; sometimes a "
    "threshold between two values), as the whole argument and as a 0/1 factor of a product "
    "((v >= t) * w); the column (read by position, the term's label does not matter) must hold the "
    "values of Python's operator on the frame's columns, at training time and on the new frames "
    "(driver op c16_column)",
    "binary on int64 identifier columns whose values lie beyond 2**53 (not all of them binary64 "
    "numbers; positive and negative; neighbours that differ by 1), the success value omitted or written "
    "in the formula as an integer literal: equal to a value of the column, or absent but next to one; "
    "the values reach Spec.C16.binaryExpected as exact integers, the column is read by position",
    "prop at prediction: response.evaluate_new_data is judged (driver op c16_column: the trials of "
    "every row of the new frame, a constant broadcast to its row count) on the new frame as drawn and "
    "on the same rows with the successes column missing in some or all rows (float NaN, nullable Int64 "
    "pd.NA) and with the successes column removed",
]
TRUSTED = ["numpy broadcasting of constants (np.ones * c)"]


def col(dm, name):
    m = np.asarray(dm.common[name], dtype=float)
    return m.reshape(len(m), -1)[:, 0]


def lv(values):
    return [None if (isinstance(v, float) and np.isnan(v)) else (int(v) if isinstance(
        v, (int, np.integer)) or (isinstance(v, float) and float(v).is_integer()) else str(v))
        for v in values]


# ------------------------------------------------------------------------------------------------
# shadowing: the registry names bound to unrelated objects in the scopes the formula can see
# ------------------------------------------------------------------------------------------------
def _sevens(*a, **k):
    """a user function that happens to have a helper's name: a column of sevens"""
    first = a[0] if a else next(iter(k.values()))
    return np.full(len(first), 7.0)


def _unit_interval(values, *a, **k):
    """the user's own idea of `scale`: to the unit interval"""
    v = np.asarray(values, dtype=float)
    return (v - v.min() + 1.0) / (v.max() - v.min() + 2.0)


def _shift(values, *a, **k):
    return np.asarray(values, dtype=float) + 1.0


class _UserClass:
    def __init__(self, *a, **k):
        pass


SHADOW_OBJECTS = [
    ("float 0.05", lambda n: 0.05), ("float 300.0", lambda n: 300.0), ("int 2000", lambda n: 2000),
    ("int n_rows", lambda n: n), ("np.eye(2)", lambda n: np.eye(2)), ("str 'label'", lambda n: "label"),
    ("None", lambda n: None), ("list", lambda n: [1, 2, 3]), ("np.arange(n_rows)", lambda n: np.arange(n)),
    ("function -> sevens", lambda n: _sevens), ("function -> unit interval", lambda n: _unit_interval),
    ("function -> values + 1", lambda n: _shift), ("user class", lambda n: _UserClass),
    ("np.log", lambda n: np.log),
]


def registry_names():
    from formulae.transforms import TRANSFORMS
    from formulae.categorical import ENCODINGS
    return sorted(set(TRANSFORMS) | set(ENCODINGS))


def gen_shadow(r, n_rows):
    """-> (mode, {name: description}, {name: object}); at least one name is bound"""
    names = registry_names()
    picked = [nm for nm in names if r.random() < 0.6] or [r.choice(names)]
    desc, objs = {}, {}
    for nm in picked:
        d, mk = r.choice(SHADOW_OBJECTS)
        desc[nm], objs[nm] = d, mk(n_rows)
    return r.choice(["extra_namespace", "caller_locals", "caller_globals"]), desc, objs


def make_builder(mode, objs, ns):
    """design_matrices as seen from a calling scope that binds `objs` (mode = where)"""
    import formulae
    if mode is None:
        return lambda formula, data: formulae.design_matrices(formula, data, extra_namespace=ns)
    if mode == "extra_namespace":
        full = dict(ns)
        full.update(objs)
        return lambda formula, data: formulae.design_matrices(formula, data, extra_namespace=full)
    names = sorted(objs)
    if mode == "caller_locals":
        src = "def caller(_dm_, _formula_, _data_, _ns_, _vals_):\n"
        for i, nm in enumerate(names):
            src += f"    {nm} = _vals_[{i}]\n"
        src += "    return _dm_(_formula_, _data_, extra_namespace=_ns_)\n"
        glob = {}
    else:
        src = ("def caller(_dm_, _formula_, _data_, _ns_, _vals_):\n"
               "    return _dm_(_formula_, _data_, extra_namespace=_ns_)\n")
        glob = dict(objs)
    exec(src, glob)
    caller = glob["caller"]
    vals = [objs[nm] for nm in names]
    return lambda formula, data: caller(formulae.design_matrices, formula, data, ns, vals)


def prop_new_frames(r, nd, train, sname):
    """new frames for the prediction stage of a prop response whose successes column is `sname`:
    the frame as drawn, and the same rows with the successes missing in some (or all) rows as a float
    column with NaN, as a nullable Int64 column with pd.NA, and without the successes column"""
    n = len(nd)
    out = [("as drawn", nd)]
    if sname in nd.columns:
        base = nd[sname].tolist()
    else:
        base = [int(v) for v in train[sname].tolist()[:1]] * n
    hide = [r.random() < 0.5 for _ in range(n)]
    if r.random() < 0.2:
        hide = [True] * n
    if not any(hide):
        hide[r.randrange(n)] = True
    f1 = nd.copy()
    f1[sname] = np.array([np.nan if h else float(v) for h, v in zip(hide, base)], dtype=float)
    out.append(("successes missing (NaN)", f1))
    f2 = nd.copy()
    f2[sname] = pd.array([None if h else int(v) for h, v in zip(hide, base)], dtype="Int64")
    out.append(("successes missing (pd.NA, Int64)", f2))
    out.append(("no successes column", nd.drop(columns=[sname]) if sname in nd.columns else nd))
    # a prediction grid with MORE rows than the training frame had (tenth seeded wave, C16_P: the
    # training-time array of a constant number of trials was reused and cut to the new length)
    reps = len(train) // max(len(nd), 1) + 2
    out.append(("more rows than the training frame",
                pd.concat([nd] * reps, ignore_index=True).iloc[:len(train) + 1 + r.randrange(0, 4)]))
    return out


def lit(v):
    return repr(v) if isinstance(v, str) else str(v)


def exact_levels(values, success):
    """Float values -> the integer levels the driver reads (Level.n), exactly: every value (and the
    success value) is the exact fraction of its binary64, multiplied by the common denominator of
    all of them.  The map is injective and monotone, and Spec.C16.binaryExpected depends on the
    values only through equality and order, so nothing is rounded and nothing is merged."""
    fr = [Fraction(float(v)) for v in values]
    fs = None if success is None else Fraction(float(success))
    den = 1
    for f in fr + ([] if fs is None else [fs]):
        den = den * f.denominator // math.gcd(den, f.denominator)
    return [int(f * den) for f in fr], (None if fs is None else int(fs * den))


def close_float_columns(r, n):
    """Float columns whose distinct values lie close together -- relative to their magnitude (large
    values, steps of about one), in absolute terms (tiny values, possibly with 0.0), and ordinary
    fractions -- and the success values tried on each: omitted, two values of the column, and values
    that never occur but lie next to one that does (a relative 1e-6 / a fraction of the spacing)
    -> ({column: values}, [(column, success or None, kind)])"""
    def fill(levels):
        xs = [r.choice(levels) for _ in range(n)]
        for i, l in enumerate(levels):
            xs[i % n] = l
        r.shuffle(xs)
        return xs
    base = r.choice([250000.0, 1048576.0, 3.0e7, -4.0e6, 123456.5, 9007199254.0])
    step = r.choice([1.0, 0.5, 2.0, 0.25])
    big = [base + i * step for i in r.sample(range(-2, 3), 3)]
    unit = r.choice([1e-9, 2.5e-10, 1e-12, -1e-9, 3e-11])
    tiny = [unit * m for m in r.sample([1, 2, 3, 5, 7], 3)]
    if r.random() < 0.4:
        tiny[r.randrange(3)] = 0.0
    plain = r.sample([-0.75, 0.5, 1.5, 2.25, 10.0, -3.0, 0.1], 3)
    levels = {"fbig": big, "ftiny": tiny, "fplain": plain}
    cols = {name: fill(lv_) for name, lv_ in levels.items()}
    cases = []
    for name, lv_ in levels.items():
        cases.append((name, None, "omitted"))
        for v in r.sample(lv_, 2):
            cases.append((name, v, "present"))
        v = r.choice(lv_)
        if name == "ftiny":
            near = v + r.choice([-1, 1]) * abs(unit) / r.choice([4, 8, 1024])
        else:
            near = v * (1 + r.choice([-1, 1]) * r.choice([1e-6, 1e-7, 3e-9])) if v else 1e-9
        if near not in lv_:
            cases.append((name, near, "absent, next to an observed value"))
    return cols, cases


COMPARISONS = (("<", operator.lt), ("<=", operator.le), (">", operator.gt), (">=", operator.ge),
               ("==", operator.eq), ("!=", operator.ne))
# (spelling, is the comparison multiplied by a second column)
COMPARISON_FORMS = (("I({c})", False), ("{{{c}}}", False), ("offset({c})", False),
                    ("I(({c}) * {w})", True), ("offset(({c}) * {w})", True), ("{{({c}) * {w}}}", True))
COMPARISON_VARS = ("x", "z", "k", "kz", "n", "s")


def num_lit(v):
    """a number of a frame as the formula writes it (ints as ints, floats with their decimals)"""
    v = v.item() if hasattr(v, "item") else v
    return str(int(v)) if isinstance(v, int) else repr(float(v))


def comparison_cases(r, fi, df, nd, per_op):
    """-> [(argument, expected(frame) -> values, description)]: every comparison operator against a
    threshold that rows of the training frame / of the new frame sit on (one in five: such a value
    plus 0.5), in every spelling of COMPARISON_FORMS in turn"""
    out = []
    for oi, (sym, op) in enumerate(COMPARISONS):
        for j in range(per_op):
            var = r.choice(COMPARISON_VARS)
            on = sorted(set(df[var].tolist()) | set(nd[var].tolist()))
            t = r.choice(on)
            where = "a value of the column"
            if r.random() < 0.2:
                t, where = t + 0.5, "a value of the column plus 0.5"
            form, product = COMPARISON_FORMS[(fi + oi + j * 2) % len(COMPARISON_FORMS)]
            w = r.choice([v for v in COMPARISON_VARS]) if product else None
            if product and r.random() < 0.6:
                w = var
            comp = f"{var} {sym} {num_lit(t)}"
            arg = form.format(c=comp, w=w)

            def expected(d, var=var, op=op, t=t, w=w):
                c = op(d[var], t).astype(float)
                return list(c if w is None else c * d[w])
            out.append((arg, expected, {"operator": sym, "column": var, "threshold": t,
                                        "threshold_is": where}))
    return out


def big_id_column(r, n):
    """An int64 identifier column with values beyond 2**53 (neighbours differ by 1, so most of them are
    not binary64 numbers) and the success values tried on it, all written as integer literals:
    omitted, two values of the column, a value that never occurs next to one that does
    -> (values, [(success or None, kind)])"""
    base = r.choice([2 ** 53, -(2 ** 53), 2 ** 53 + 2 ** 20, 2 ** 60, -(2 ** 62) + 2 ** 40, 2 ** 63 - 50])
    sign = 1 if base > 0 else -1
    levels = [base + sign * o for o in r.sample(range(0, 12), 4)]
    xs = [r.choice(levels) for _ in range(n)]
    for i, l in enumerate(levels):
        xs[i % n] = l
    r.shuffle(xs)
    cases = [(None, "omitted")] + [(v, "present") for v in r.sample(levels, 2)]
    for v in r.sample(levels, 4):
        near = [c for c in (v - 1, v + 1, v - 2, v + 2) if c not in levels]
        if near:
            cases.append((r.choice(near[:2]), "absent, next to an observed value"))
            break
    return xs, cases


INT_TYPED_OFFSETS = ("offset(n)", "offset(n * 2)", "offset(s + n)", "offset(kz)", "offset(np.abs(kz))",
                     "offset(k - 1)", "offset(x)", "I(n * 2)")


def fractional_new_frame(r, nd):
    """The new frame with the dtypes of the numeric columns the other way round: the columns that
    are integer typed at training time (n, s, k, kz) hold fractions, the float columns (x, z) hold
    int64 integers"""
    out = nd.copy()
    m = len(out)
    for c in ("n", "s", "k", "kz"):
        vals = [r.randrange(-9, 40) / 4 for _ in range(m)]
        vals[r.randrange(m)] = r.randrange(0, 9) + r.choice([0.25, 0.5, 0.75])
        out[c] = np.array(vals, dtype=float)
    for c in ("x", "z"):
        out[c] = np.array([r.randrange(-6, 7) for _ in range(m)], dtype="int64")
    return out


# formula contexts in which two calls A, B of one helper meet -> names of the terms (besides the
# intercept) of the part of the design the calls land in
CONTEXT_TERMS = {
    "0 + {A} + {B}": lambda A, B: [A, B],
    "{A} + {B}": lambda A, B: [A, B],
    "{B} + {A}": lambda A, B: [A, B],
    "{A} + x + {B}": lambda A, B: [A, "x", B],
    "x + {A} + {B}": lambda A, B: ["x", A, B],
    "{A}:x + {B}:x": lambda A, B: [A + ":x", B + ":x"],
    "{A} + {B} + {A}:{B}": lambda A, B: [A, B, A + ":" + B],
    "({A} | g) + ({B} | g)": lambda A, B: ["1|g", A + "|g", B + "|g"],
}


def design_views(dm, nd):
    """What must coincide between synonymous spellings: matrices (training, new frame), widths."""
    out = {}
    for part in ("common", "group"):
        obj = getattr(dm, part)
        if obj is None:
            out[part] = None
            continue
        v = {"matrix": np.asarray(obj.design_matrix, float).tolist(),
             "widths": [sl.stop - sl.start for sl in obj.slices.values()]}
        try:
            v["new"] = np.asarray(obj.evaluate_new_data(nd).design_matrix, float).tolist()
        except Exception as e:  # noqa
            v["new"] = type(e).__name__
        out[part] = v
    return out


def explore(tier, seed, res=None, replay=None):
    res = res or Result()
    res.rule = ("generated frames x success values (present, absent, omitted; numeric and string; float "
                "columns with close values: present, omitted, absent next to an observed value) x "
                "binary on int64 identifiers beyond 2**53 with integer-literal success values x "
                "offsets (column, constant, call, integer typed column / expression; new frames as drawn "
                "and with the numeric dtypes swapped) x comparisons (< <= > >= == !=) against thresholds "
                "that occur in the data inside I / {} / offset, alone and times a column x trial specifications (column, constant; valid and "
                "invalid), at training time and on new frames (prop: also new frames whose successes are "
                "missing or absent); alias pairs; formulas with two calls of "
                "one helper differing in a keyword value, in every helper/alias spelling; each frame "
                "with a clean namespace and with the registry names bound to unrelated objects in "
                "extra_namespace / the caller's locals / the caller's globals; non-trivial = every "
                "case except the trivial I(x); distinct by (helper, arguments, frame seed, scope)")
    n_frames = 60 if tier == "quick" else 1000
    reqs, owners = [], []

    def add(req, case, why=None):
        reqs.append(req)
        owners.append((case, why))
        res.nontrivial.add(tuple(sorted((k, str(v)) for k, v in case.items())))

    ns = designs.namespace()
    frames = range(n_frames)
    if replay is not None and "seed_path" in replay:
        frames = [replay["seed_path"]]
    for fi in frames:
      r = rng_for(seed, "c16", fi)
      df = designs.gen_frame(r)
      nd = df.iloc[[r.randrange(len(df)) for _ in range(r.randrange(2, 7))]].reset_index(drop=True)
      nd["z"] = [r.randrange(-8, 9) / 4 for _ in range(len(nd))]
      nd["n"] = [r.randrange(3, 12) for _ in range(len(nd))]
      nd["nbig"] = nd["n"] + 250
      fcols, fcases = close_float_columns(rng_for(seed, "c16", "floats", fi), len(df))
      dfb = df.copy()
      for cname, cvals in fcols.items():
          dfb[cname] = np.array(cvals, dtype=float)
      big_xs, big_cases = big_id_column(rng_for(seed, "c16", "bigid", fi), len(df))
      dfb["bigid"] = np.array(big_xs, dtype="int64")
      rsp = rng_for(seed, "c16", "float-spelling", fi)
      fcases = [(c, sv, kind, rsp.choice(["binary", "B"]), rsp.random() < 0.5) for c, sv, kind in fcases]
      ndf = fractional_new_frame(rng_for(seed, "c16", "fractional", fi), nd)
      mode, shadow_desc, shadow_objs = gen_shadow(rng_for(seed, "c16", "shadow", fi), len(df))
      # quick tier: the shadowed pass on every second frame (all frames when replaying / thorough)
      shadowed = tier != "quick" or replay is not None or (fi + seed) % 2 == 0
      for scope in (None, {"where": mode, "bound": shadow_desc}) if shadowed else (None,):
        build = make_builder(None if scope is None else mode, shadow_objs, ns)
        r2 = rng_for(seed, "c16", "double", fi)      # the same double-call formulas in both scopes

        def mk(helper, **kw):
            c = {"helper": helper, "seed_path": fi}
            if scope is not None:
                c["scope"] = scope
            c.update(kw)
            return c
        res.count("scope:" + ("clean" if scope is None else mode))
        # quick tier: the close-float binary cases, the integer typed offsets and the dtype-swapped
        # new frame in the clean scope only (thorough / replay: in both scopes)
        wide = scope is None or tier != "quick" or replay is not None
        # ---- binary ------------------------------------------------------------------------------
        # categorical columns that DECLARE a category no row takes (unordered / ordered; the unused
        # category sorts first, in the middle, last): such a success value never occurs in training
        # and is refused; the default is the smallest value that occurs (tenth seeded wave, C16_O)
        rcx = rng_for(seed, "c16", "unused-category", fi)
        dfx = df.copy()
        for cname, ordered in (("cx", False), ("cxo", True)):
            seen = rcx.sample(["pa", "pb", "pc", "pd"], rcx.randrange(1, 4))
            never = rcx.choice(["aa-never", "pb-never", "zz-never"])
            cats = seen + [never]
            rcx.shuffle(cats)
            vals = [seen[i % len(seen)] for i in range(len(df))]
            rcx.shuffle(vals)
            dfx[cname] = pd.Categorical(vals, categories=cats, ordered=ordered)
            dfx.attrs[cname] = (never, vals[0])
        cx_cases = []
        for cname in ("cx", "cxo"):
            never, present = dfx.attrs[cname]
            cx_cases += [(cname, repr(never)), (cname, repr(present)), (cname, None)]
        for var, succ in ((("k", None), ("k", 2), ("k", 7), ("h", "'q'"), ("h", "'zz'"), ("f", None),
                           ("k", 1), ("co", None), ("cu", None), ("kz", 0), ("kz", None), ("co", "'mid'"))
                          + tuple(cx_cases)):
            for fn in ("binary", "B"):
                res.evaluations += 1
                arg = f"{fn}({var})" if succ is None else f"{fn}({var}, {succ})"
                case = mk(arg)
                if var in ("cx", "cxo"):
                    res.count("binary_unused_category:" + ("omitted" if succ is None else
                              "unused" if succ == repr(dfx.attrs[var][0]) else "present"))
                    case = mk(arg, categories=list(dfx[var].cat.categories),
                              observed=sorted(set(dfx[var].tolist())), ordered=bool(dfx[var].cat.ordered))
                    df_saved, df = df, dfx
                try:
                    dm = build(f"y ~ {arg}", df)
                    column, err = [designs.frac(v) for v in col(dm, arg)], None
                except Exception as e:  # noqa
                    column, err = None, type(e).__name__
                s = None if succ is None else (succ.strip("'") if isinstance(succ, str) else succ)
                add({"op": "c16_binary", "x": lv(df[var].tolist()), "success": s, "column": column,
                     "err": err or ""}, case)
                if var in ("cx", "cxo"):
                    df = df_saved
        # float columns whose values are close together: equality is exact (no tolerance), at both
        # magnitudes; the success value is written as a decimal literal or passed as a variable
        build_b = make_builder(None if scope is None else mode, shadow_objs,
                               dict(ns, **{f"sv{i}": sv for i, (_, sv, _, _, _) in enumerate(fcases)
                                           if sv is not None}))
        for i, (var, sv, kind, fn, as_literal) in enumerate(fcases if wide else ()):
            res.evaluations += 1
            res.count("binary_float:" + kind)
            if sv is None:
                arg = f"{fn}({var})"
            elif as_literal and "e" not in repr(sv) and float(repr(sv)) == sv:
                arg = f"{fn}({var}, {sv!r})"
            else:
                arg = f"{fn}({var}, sv{i})"
            case = mk(arg, column=var, values=sorted(set(fcols[var])), success=sv, success_is=kind)
            try:
                dm = build_b(f"y ~ {arg}", dfb)
                tn = [t for t in dm.common.terms if t != "Intercept"]
                column, err = [designs.frac(v) for v in col(dm, tn[0])], None
            except Exception as e:  # noqa
                column, err = None, type(e).__name__
            xs, s = exact_levels(fcols[var], sv)
            add({"op": "c16_binary", "x": xs, "success": s, "column": column, "err": err or ""}, case)
        # int64 identifiers beyond 2**53: the success value is the integer the formula spells
        rbig = rng_for(seed, "c16", "bigid-spelling", fi)
        for sv, kind in (big_cases if wide else ()):
            fn = rbig.choice(["binary", "B"])
            res.evaluations += 1
            res.count("binary_bigint:" + kind)
            arg = f"{fn}(bigid)" if sv is None else f"{fn}(bigid, {sv})"
            case = mk(arg, column="bigid", dtype="int64", values=sorted(set(big_xs)), success=sv,
                      success_is=kind)
            try:
                dm = build(f"y ~ {arg}", dfb)
                tn = [t for t in dm.common.terms if t != "Intercept"]
                column, err = [designs.frac(v) for v in col(dm, tn[0])], None
            except Exception as e:  # noqa
                column, err = None, type(e).__name__
            add({"op": "c16_binary", "x": [int(v) for v in big_xs], "success": sv, "column": column,
                 "err": err or ""}, case)
        # ---- offset / I -------------------------------------------------------------------------
        for arg, fn in (
                ("offset(z)", lambda d: d["z"]),
                ("offset(3)", lambda d: [3.0] * len(d)),
                ("offset(0.5)", lambda d: [0.5] * len(d)),
                # a constant may be written as a signed number or a constant expression (D32)
                ("offset(-1)", lambda d: [-1.0] * len(d)),
                ("offset(-0.5)", lambda d: [-0.5] * len(d)),
                ("offset(1 + 2)", lambda d: [3.0] * len(d)),
                ("offset(2 * 3 - 1)", lambda d: [5.0] * len(d)),
                ("offset(I(z * 2))", lambda d: d["z"] * 2),
                ("offset(np.abs(z))", lambda d: d["z"].abs()),
                # integer typed at training time (column / integer-valued expression / call)
                ("offset(n)", lambda d: d["n"]),
                ("offset(n * 2)", lambda d: d["n"] * 2),
                ("offset(s + n)", lambda d: d["s"] + d["n"]),
                ("offset(kz)", lambda d: d["kz"]),
                ("offset(np.abs(kz))", lambda d: d["kz"].abs()),
                ("offset(k - 1)", lambda d: d["k"] - 1),
                ("offset(x)", lambda d: d["x"]),
                ("I(n * 2)", lambda d: d["n"] * 2),
                ("I(x + z)", lambda d: d["x"] + d["z"]),
                ("I(x)", lambda d: d["x"]),
                ("{x * z}", lambda d: d["x"] * d["z"])):
            if not wide and arg in INT_TYPED_OFFSETS:
                continue
            res.evaluations += 1
            case = mk(arg)
            name = arg if not arg.startswith("{") else "I(" + arg[1:-1] + ")"
            try:
                dm = build(f"y ~ f + {arg}", df)
                c0 = [designs.frac(v) for v in col(dm, name)]
            except Exception as e:  # noqa
                res.failures.append({"case": case, "impl": type(e).__name__, "expected": "a column",
                                     "finding": None, "why": f"{arg} raised {type(e).__name__}"})
                continue
            add({"op": "c16_column", "expected": [designs.frac(v) for v in list(fn(df))], "column": c0},
                dict(case, when="training"))
            # the values of the NEW frame, whatever the dtype of the column was at training time:
            # the frame as drawn, and the frame with fractions in the integer typed columns (and
            # integers in the float columns)
            for tag, frame in (("as drawn", nd), ("dtypes swapped: fractions in n, s, k, kz; int64 x, z", ndf)):
                if frame is ndf and not wide:
                    continue
                pcase = dict(case, when="prediction")
                if tag != "as drawn":
                    pcase["new_frame"] = tag
                    res.evaluations += 1
                try:
                    new = dm.common.evaluate_new_data(frame)
                    c1 = [designs.frac(v) for v in
                          np.asarray(new[name], dtype=float).reshape(len(frame), -1)[:, 0]]
                except Exception as e:  # noqa
                    res.failures.append({"case": pcase, "impl": type(e).__name__, "expected": "a column",
                                         "finding": None,
                                         "why": f"{arg}: evaluate_new_data raised {type(e).__name__}"})
                    continue
                add({"op": "c16_column", "expected": [designs.frac(v) for v in list(fn(frame))],
                     "column": c1}, pcase)
        # ---- comparisons inside I / {} / offset: thresholds rows sit on -----------------------------
        rc = rng_for(seed, "c16", "comparison", fi)     # the same cases in both scopes
        for arg, fn, what in comparison_cases(rc, fi, df, nd, 1 if tier == "quick" else 2):
            res.evaluations += 1
            res.count("comparison:" + what["operator"])
            case = mk(arg, **what)
            try:
                dm = build(f"y ~ f + {arg}", df)
                name = list(dm.common.terms)[-1]          # by position: the label is not judged here
                c0 = [designs.frac(v) for v in col(dm, name)]
            except Exception as e:  # noqa
                res.failures.append({"case": case, "impl": type(e).__name__, "expected": "a column",
                                     "finding": None, "why": f"{arg} raised {type(e).__name__}"})
                continue
            add({"op": "c16_column", "expected": [designs.frac(v) for v in fn(df)], "column": c0},
                dict(case, when="training"))
            for tag, frame in (("as drawn", nd), ("dtypes swapped: fractions in n, s, k, kz; int64 x, z", ndf)):
                if frame is ndf and not wide:
                    continue
                pcase = dict(case, when="prediction")
                if tag != "as drawn":
                    pcase["new_frame"] = tag
                    res.evaluations += 1
                try:
                    new = dm.common.evaluate_new_data(frame)
                    c1 = [designs.frac(v) for v in
                          np.asarray(new[name], dtype=float).reshape(len(frame), -1)[:, 0]]
                except Exception as e:  # noqa
                    res.failures.append({"case": pcase, "impl": type(e).__name__, "expected": "a column",
                                         "finding": None,
                                         "why": f"{arg}: evaluate_new_data raised {type(e).__name__}"})
                    continue
                add({"op": "c16_column", "expected": [designs.frac(v) for v in fn(frame)],
                     "column": c1}, pcase)
        # ---- prop --------------------------------------------------------------------------------
        bad = df.copy()
        bad["s2"] = bad["s"] + 0.5
        bad["s3"] = bad["n"] + 1
        bad["n2"] = bad["n"] + 0.25
        bad["s8"] = bad["s"].astype("int8")        # compact dtype, trials beyond its range
        bad["nbig"] = bad["n"] + 250
        for fn in ("p", "prop", "proportion"):
            for sname, tname in (("s", "n"), ("s2", "n"), ("s3", "n"), ("s", "n2"), ("s", 9), ("s", 2),
                                 ("s8", 300), ("s8", "nbig"), ("s", ("4 + 5", 9)), ("s", ("3 * 4", 12)),
                                 ("s", ("+9", 9))):
                res.evaluations += 1
                if isinstance(tname, tuple):          # constant trials written as an expression
                    arg, tname = f"{fn}({sname}, {tname[0]})", tname[1]
                else:
                    arg = f"{fn}({sname}, {tname})"
                case = mk(arg)
                trials = bad[tname].tolist() if isinstance(tname, str) else [tname] * len(bad)
                try:
                    dm = build(f"{arg} ~ x", bad)
                    m = np.asarray(dm.response.design_matrix, dtype=float)
                    acc, err = True, ""
                    c0 = [designs.frac(v) for v in m[:, 0]]
                    c1 = [designs.frac(v) for v in m[:, 1]]
                except Exception as e:  # noqa
                    acc, err, c0, c1, dm = False, type(e).__name__, [], [], None
                add({"op": "c16_prop", "successes": [designs.frac(v) for v in bad[sname].tolist()],
                     "trials": [designs.frac(v) for v in trials], "accepted": acc, "err": err,
                     "col0": c0, "col1": c1}, case)
                if dm is not None:
                    # prediction reports the trials of the new frame (or the constant): of EVERY row
                    # of it, whatever the frame says about the successes -- the out-of-sample frame
                    # carries them complete, with missing values (not known yet), or not at all
                    rp = rng_for(seed, "c16", "prop_new", fi, sname)
                    for tag, frame in prop_new_frames(rp, nd, bad, sname):
                        res.evaluations += 1
                        res.count("prop_prediction:" + tag)
                        pcase = dict(case, when="prediction", new_frame=tag)
                        if tag == "as drawn":
                            pcase.pop("new_frame")
                        try:
                            t1 = np.asarray(dm.response.evaluate_new_data(frame), dtype=float).ravel()
                            want = frame[tname].tolist() if isinstance(tname, str) else [tname] * len(frame)
                            add({"op": "c16_column", "expected": [designs.frac(v) for v in want],
                                 "column": [designs.frac(v) for v in t1]}, pcase)
                        except Exception as e:  # noqa
                            res.failures.append({"case": pcase, "impl": type(e).__name__, "finding": None,
                                                 "expected": "trials of the new frame",
                                                 "why": "response.evaluate_new_data raised"})
        # ---- aliases: identical designs ------------------------------------------------------------
        for a, b in (("B(k, 2)", "binary(k, 2)"), ("standardize(x)", "scale(x)"),
                     ("T(f, 'b')", "C(f, Treatment('b'))"), ("S(g, 'v')", "C(g, Sum('v'))"),
                     ("T(f)", "C(f, Treatment)"), ("S(f)", "C(f, Sum)"),
                     ("S(kz, 0)", "C(kz, Sum(0))"), ("T(kz, 0)", "C(kz, Treatment(0))"),
                     ("S(kz, -1)", "C(kz, Sum(-1))"), ("T(kz, 1)", "C(kz, Treatment(1))")):
            res.evaluations += 1
            case = mk(f"{a} vs {b}")
            try:
                d1 = build(f"y ~ {a}", df).common
                d2 = build(f"y ~ {b}", df).common
                m1, m2 = d1.design_matrix, d2.design_matrix
                if not np.array_equal(np.asarray(m1, float), np.asarray(m2, float)):
                    res.failures.append({"case": case, "impl": "designs differ", "expected": "identical",
                                         "finding": None, "why": f"aliases {a} and {b} give different designs"})
                # synonyms at prediction time too (same frame, all values seen in training)
                def on_new(d):
                    try:
                        return np.asarray(d.evaluate_new_data(nd).design_matrix, float).tolist()
                    except Exception as e:  # noqa  (e.g. D14: binary's success value absent)
                        return type(e).__name__
                if on_new(d1) != on_new(d2):
                    res.failures.append({"case": dict(case, when="prediction"), "impl": "designs differ",
                                         "expected": "identical", "finding": None,
                                         "why": f"aliases {a} and {b} give different designs on new data"})
                res.nontrivial.add((a, b, fi, str(scope)))
            except Exception as e:  # noqa
                res.failures.append({"case": case, "impl": type(e).__name__, "expected": "identical",
                                     "finding": None, "why": f"alias pair raised {type(e).__name__}"})
        # ---- two calls of one helper that differ only in a keyword value ---------------------------
        # every helper/alias spelling of the two calls must give one and the same design, with one
        # term per call, each column holding its pointwise meaning
        doubles = []
        # (quick tier: in the clean scope only, one binary pair; thorough: both scopes, two pairs)
        for _ in range((1 if tier == "quick" else 2) if (scope is None or tier != "quick") else 0):
            var = r2.choice(["k", "kz", "h", "f", "g", "co", "cu"])
            s1, s2 = r2.sample(sorted(set(df[var].tolist()), key=str), 2)
            doubles.append(("binary", var, s1, s2,
                            [lambda v, s: f"binary({v}, success={lit(s)})", lambda v, s: f"B({v}, success={lit(s)})"],
                            r2.choice(["0 + {A} + {B}", "{A} + {B}", "{A} + x + {B}", "{B} + {A}",
                                       "{A}:x + {B}:x", "({A} | g) + ({B} | g)", "{A} + {B} + {A}:{B}"]
                                      if var != "g" else ["0 + {A} + {B}", "{A} + {B}"])))
        for fam, kwname, enc in (("T", "ref", "Treatment"), ("S", "omit", "Sum")):
            if scope is not None and tier == "quick":
                break
            var = r2.choice(["f", "g", "h", "k", "kz", "cu", "co"])
            s1, s2 = r2.sample(sorted(set(df[var].tolist()), key=str), 2)
            doubles.append((fam, var, s1, s2,
                            [lambda v, s, fam=fam, kwname=kwname: f"{fam}({v}, {kwname}={lit(s)})",
                             lambda v, s, enc=enc: f"C({v}, {enc}({lit(s)}))"],
                            r2.choice(["{A} + {B}", "0 + {A} + {B}", "x + {A} + {B}", "{A}:x + {B}:x",
                                       "{B} + {A}"])))
        for fam, var, s1, s2, spellings, ctx in doubles:
            views = []
            for sa in spellings:
                for sb in spellings:
                    res.evaluations += 1
                    A, B = sa(var, s1), sb(var, s2)
                    formula = "y ~ " + ctx.format(A=A, B=B)
                    case = mk(f"{fam} twice", formula=formula)
                    try:
                        dm = build(formula, df)
                    except Exception as e:  # noqa
                        res.failures.append({"case": case, "impl": type(e).__name__, "finding": None,
                                             "expected": "a design with one term per call",
                                             "why": f"{formula} raised {type(e).__name__}"})
                        continue
                    views.append((formula, design_views(dm, nd)))
                    # one term per call, under the names the calls spell
                    part = dm.group if "|" in ctx else dm.common
                    names = [] if part is None else [t for t in part.terms if t != "Intercept"]
                    want = CONTEXT_TERMS[ctx](A, B)
                    if sorted(names) != sorted(want):
                        res.failures.append({"case": case, "impl": {"terms": names}, "finding": None,
                                             "expected": {"terms": want},
                                             "why": "the design does not have one term per helper call"})
                        continue
                    if dm.common is not None:
                        terms = list(dm.common.terms.values())
                        add({"op": "c04_spec", "formula": formula,
                             "frame": designs.frame_json(designs.dm_frame(dm, df)),
                             "names": designs.names_json(designs.NAMES),
                             "parts": [{"labels": designs._labels(terms),
                                        "matrix": designs.mat(dm.common.design_matrix)}]},
                            dict(case, check="columns hold what their labels say"))
                    if fam == "binary" and ":" not in ctx and "|" not in ctx:
                        for call, sv in ((A, s1), (B, s2)):
                            add({"op": "c16_binary", "x": lv(df[var].tolist()),
                                 "success": sv if not isinstance(sv, str) else sv,
                                 "column": [designs.frac(v) for v in col(dm, call)], "err": ""},
                                dict(case, column=call))
            for formula, v in views[1:]:
                if v != views[0][1]:
                    res.failures.append({
                        "case": mk(f"{fam} twice", formula=formula, versus=views[0][0]),
                        "impl": "designs differ", "expected": "identical", "finding": None,
                        "why": "helper and alias spellings of the same two calls give different designs"})
            res.nontrivial.add((fam, var, str(s1), str(s2), ctx, fi, str(scope)))
        if len(res.samples) < 4:
            res.samples.append({"frame_seed": fi, "helpers": ["binary(k, 2)", "offset(3)", "p(s, n)"],
                                "scope": scope})
    for (case, why), sp, rq in zip(owners, ask(reqs), reqs):
        res.traces += 1
        if "parts" in sp or "err" in sp:          # c04_spec
            bad_parts = [v for v in sp.get("parts", []) if "err" not in v and not v["ok"]]
            if bad_parts:
                res.failures.append({"case": case, "impl": bad_parts[0], "expected": "Spec.C04.decodeLabel",
                                     "finding": None,
                                     "why": f"column labelled {bad_parts[0]['first_bad']!r} does not hold "
                                            "what the label says"})
            continue
        if not sp.get("holds") and rq.get("op") == "c16_column":
            def show(colm):
                return None if colm is None else [None if v is None else v[0] / v[1] for v in colm]
            res.failures.append({"case": case, "impl": {"column": show(rq.get("column"))},
                                 "expected": {"column": show(rq.get("expected"))}, "finding": None,
                                 "why": f"{case['helper']}: pointwise meaning violated "
                                        f"({case.get('when', 'training')}): Spec.C16 column predicate "
                                        "false on the returned column"})
        elif not sp.get("holds"):
            if rq.get("op") == "c16_binary":
                colm = rq.get("column")
                sp = dict(sp, returned=(rq.get("err") or None) if colm is None else
                          [None if v is None else v[0] / v[1] for v in colm])
            res.failures.append({"case": case, "impl": sp, "expected": "Spec.C16", "finding": None,
                                 "why": f"{case['helper']}: pointwise meaning violated "
                                        f"({case.get('when', 'training')})"})
    return res
