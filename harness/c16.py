"""C16 — built-in helper functions and aliases keep their documented pointwise meaning."""
import numpy as np
import pandas as pd

import designs
from common import Result, ask, rng_for, known_findings

ASSUMPTIONS = [
    "the pointwise meaning of binary / offset / prop / I (Spec.C16) is evaluated by the Lean driver on "
    "columns of real designs, at training time and on new frames; alias synonymy is decided by the "
    "registry tie (object identity, by `decide`) and by paired real runs",
    "binary on new frames: the statement's prediction clause is D14 (binary is not stateful), recorded "
    "under C06; here binary is judged at training time and for refusal of an absent success value",
]
TRUSTED = ["numpy broadcasting of constants (np.ones * c)"]


def col(dm, name):
    m = np.asarray(dm.common[name], dtype=float)
    return m.reshape(len(m), -1)[:, 0]


def lv(values):
    return [None if (isinstance(v, float) and np.isnan(v)) else (int(v) if isinstance(
        v, (int, np.integer)) or (isinstance(v, float) and float(v).is_integer()) else str(v))
        for v in values]


def explore(tier, seed, res=None, replay=None):
    import formulae
    res = res or Result()
    res.rule = ("generated frames x success values (present, absent, omitted; numeric and string) x "
                "offsets (column, constant, call) x trial specifications (column, constant; valid and "
                "invalid), at training time and on new frames; alias pairs; non-trivial = every case "
                "except the trivial I(x); distinct by (helper, arguments, frame seed)")
    n_frames = 60 if tier == "quick" else 1600
    reqs, owners = [], []

    def add(req, case):
        reqs.append(req)
        owners.append(case)
        res.nontrivial.add(tuple(sorted((k, str(v)) for k, v in case.items())))

    ns = designs.namespace()
    for fi in range(n_frames):
        r = rng_for(seed, "c16", fi)
        df = designs.gen_frame(r)
        nd = df.iloc[[r.randrange(len(df)) for _ in range(r.randrange(2, 7))]].reset_index(drop=True)
        nd["z"] = [r.randrange(-8, 9) / 4 for _ in range(len(nd))]
        nd["n"] = [r.randrange(3, 12) for _ in range(len(nd))]
        nd["nbig"] = nd["n"] + 250
        # ---- binary ------------------------------------------------------------------------------
        for var, succ in (("k", None), ("k", 2), ("k", 7), ("h", "'q'"), ("h", "'zz'"), ("f", None),
                          ("k", 1), ("co", None), ("cu", None), ("kz", 0), ("kz", None), ("co", "'mid'")):
            for fn in ("binary", "B"):
                res.evaluations += 1
                arg = f"{fn}({var})" if succ is None else f"{fn}({var}, {succ})"
                case = {"helper": arg, "seed_path": fi}
                try:
                    dm = formulae.design_matrices(f"y ~ {arg}", df, extra_namespace=ns)
                    column, err = [designs.frac(v) for v in col(dm, arg)], None
                except Exception as e:  # noqa
                    column, err = None, type(e).__name__
                s = None if succ is None else (succ.strip("'") if isinstance(succ, str) else succ)
                add({"op": "c16_binary", "x": lv(df[var].tolist()), "success": s, "column": column,
                     "err": err or ""}, case)
        # ---- offset / I -------------------------------------------------------------------------
        for arg, expect, expect_new in (
                ("offset(z)", df["z"].tolist(), nd["z"].tolist()),
                ("offset(3)", [3.0] * len(df), [3.0] * len(nd)),
                ("offset(0.5)", [0.5] * len(df), [0.5] * len(nd)),
                ("offset(I(z * 2))", (df["z"] * 2).tolist(), (nd["z"] * 2).tolist()),
                ("offset(np.abs(z))", df["z"].abs().tolist(), nd["z"].abs().tolist()),
                ("I(x + z)", (df["x"] + df["z"]).tolist(), (nd["x"] + nd["z"]).tolist()),
                ("I(x)", df["x"].tolist(), nd["x"].tolist()),
                ("{x * z}", (df["x"] * df["z"]).tolist(), (nd["x"] * nd["z"]).tolist())):
            res.evaluations += 1
            case = {"helper": arg, "seed_path": fi}
            try:
                dm = formulae.design_matrices(f"y ~ f + {arg}", df, extra_namespace=ns)
                name = arg if not arg.startswith("{") else "I(" + arg[1:-1] + ")"
                c0 = [designs.frac(v) for v in col(dm, name)]
                new = dm.common.evaluate_new_data(nd)
                c1 = [designs.frac(v) for v in np.asarray(new[name], dtype=float).reshape(len(nd), -1)[:, 0]]
            except Exception as e:  # noqa
                res.failures.append({"case": case, "impl": type(e).__name__, "expected": "a column",
                                     "finding": None, "why": f"{arg} raised {type(e).__name__}"})
                continue
            add({"op": "c16_column", "expected": [designs.frac(v) for v in expect], "column": c0},
                dict(case, when="training"))
            add({"op": "c16_column", "expected": [designs.frac(v) for v in expect_new], "column": c1},
                dict(case, when="prediction"))
        # ---- prop --------------------------------------------------------------------------------
        bad = df.copy()
        bad["s2"] = bad["s"] + 0.5
        bad["s3"] = bad["n"] + 1
        bad["n2"] = bad["n"] + 0.25
        bad["s8"] = bad["s"].astype("int8")        # compact dtype, trials beyond its range
        bad["nbig"] = bad["n"] + 250
        for fn in ("p", "prop", "proportion"):
            for sname, tname in (("s", "n"), ("s2", "n"), ("s3", "n"), ("s", "n2"), ("s", 9), ("s", 2),
                                 ("s8", 300), ("s8", "nbig")):
                res.evaluations += 1
                arg = f"{fn}({sname}, {tname})"
                case = {"helper": arg, "seed_path": fi}
                trials = bad[tname].tolist() if isinstance(tname, str) else [tname] * len(bad)
                try:
                    dm = formulae.design_matrices(f"{arg} ~ x", bad, extra_namespace=ns)
                    m = np.asarray(dm.response.design_matrix, dtype=float)
                    acc, err = True, ""
                    c0 = [designs.frac(v) for v in m[:, 0]]
                    c1 = [designs.frac(v) for v in m[:, 1]]
                except Exception as e:  # noqa
                    acc, err, c0, c1, dm = False, type(e).__name__, [], [], None
                add({"op": "c16_prop", "successes": [designs.frac(v) for v in bad[sname].tolist()],
                     "trials": [designs.frac(v) for v in trials], "accepted": acc, "err": err,
                     "col0": c0, "col1": c1}, case)
                if dm is not None:
                    # prediction reports the trials of the new frame (or the constant)
                    try:
                        t1 = np.asarray(dm.response.evaluate_new_data(nd), dtype=float).ravel()
                        want = nd[tname].tolist() if isinstance(tname, str) else [tname] * len(nd)
                        add({"op": "c16_column", "expected": [designs.frac(v) for v in want],
                             "column": [designs.frac(v) for v in t1]}, dict(case, when="prediction"))
                    except Exception as e:  # noqa
                        res.failures.append({"case": case, "impl": type(e).__name__, "finding": None,
                                             "expected": "trials of the new frame",
                                             "why": "response.evaluate_new_data raised"})
        # ---- aliases: identical designs ------------------------------------------------------------
        for a, b in (("B(k, 2)", "binary(k, 2)"), ("standardize(x)", "scale(x)"),
                     ("T(f, 'b')", "C(f, Treatment('b'))"), ("S(g, 'v')", "C(g, Sum('v'))"),
                     ("T(f)", "C(f, Treatment)"), ("S(f)", "C(f, Sum)"),
                     ("S(kz, 0)", "C(kz, Sum(0))"), ("T(kz, 0)", "C(kz, Treatment(0))"),
                     ("S(kz, -1)", "C(kz, Sum(-1))"), ("T(kz, 1)", "C(kz, Treatment(1))")):
            res.evaluations += 1
            case = {"helper": f"{a} vs {b}", "seed_path": fi}
            try:
                d1 = formulae.design_matrices(f"y ~ {a}", df, extra_namespace=ns).common
                d2 = formulae.design_matrices(f"y ~ {b}", df, extra_namespace=ns).common
                m1, m2 = d1.design_matrix, d2.design_matrix
                if not np.array_equal(np.asarray(m1, float), np.asarray(m2, float)):
                    res.failures.append({"case": case, "impl": "designs differ", "expected": "identical",
                                         "finding": None, "why": f"aliases {a} and {b} give different designs"})
                # synonyms at prediction time too (same frame, all values seen in training)
                def on_new(d):
                    try:
                        return np.asarray(d.evaluate_new_data(nd).design_matrix, float).tolist()
                    except Exception as e:  # noqa  (e.g. D14: binary's success value absent)
                        return type(e).__name__
                if on_new(d1) != on_new(d2):
                    res.failures.append({"case": dict(case, when="prediction"), "impl": "designs differ",
                                         "expected": "identical", "finding": None,
                                         "why": f"aliases {a} and {b} give different designs on new data"})
                res.nontrivial.add((a, b, fi))
            except Exception as e:  # noqa
                res.failures.append({"case": case, "impl": type(e).__name__, "expected": "identical",
                                     "finding": None, "why": f"alias pair raised {type(e).__name__}"})
        if len(res.samples) < 4:
            res.samples.append({"frame_seed": fi, "helpers": ["binary(k, 2)", "offset(3)", "p(s, n)"]})
    for case, sp in zip(owners, ask(reqs)):
        res.traces += 1
        if not sp.get("holds"):
            res.failures.append({"case": case, "impl": sp, "expected": "Spec.C16", "finding": None,
                                 "why": f"{case['helper']}: pointwise meaning violated "
                                        f"({case.get('when', 'training')})"})
    return res
