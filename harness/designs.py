"""Shared generator / observer for the evaluation properties (C04, C05, C06, C10, C15, C16, C17):
frames with exactly representable numbers, formulas over modelled atoms, observation of
`design_matrices` and of `evaluate_new_data`, the "design" request of the Lean driver and the
exact comparison of matrices."""
import math
import warnings
from fractions import Fraction

import numpy as np
import pandas as pd

LV = {"f": ["a", "b", "c"], "g": ["u", "v", "w", "t"], "h": ["p", "q"],
      "cu": ["m1", "m3", "m2"], "co": ["lo", "mid", "hi"]}
CO_ORDER = ["lo", "mid", "hi"]            # declared order: neither sorted nor starting with the smallest


def gen_frame(rng, n=None, complete=True):
    n = n or rng.randrange(8, 25)
    cols = {}

    def cat(levels):
        xs = [rng.choice(levels) for _ in range(n)]
        if complete:
            for i, l in enumerate(levels):       # every level occurs
                xs[i % n] = l
            rng.shuffle(xs)
        return xs

    cols["y"] = [rng.randrange(-8, 9) / 2 for _ in range(n)]
    cols["x"] = [float(rng.randrange(-6, 7)) for _ in range(n)]
    cols["z"] = [rng.randrange(-8, 9) / 4 for _ in range(n)]
    cols["k"] = cat([1, 2, 10])          # numeric ids that sort differently as strings
    cols["kz"] = cat([-1, 0, 1])         # integer codes incl. the falsy level 0, not first
    cols["n"] = [rng.randrange(3, 9) for _ in range(n)]
    cols["s"] = [rng.randrange(0, t + 1) for t in cols["n"]]
    for name in ("f", "g", "h"):
        cols[name] = cat(LV[name])
    cols["yc"] = cat(["no", "yes", "maybe"])
    df = pd.DataFrame(cols)
    # unordered Categorical whose declared categories are NOT in sorted order
    df["cu"] = pd.Categorical(cat(LV["cu"]), categories=["m3", "m1", "m2"])
    df["co"] = pd.Categorical(cat(LV["co"]), categories=CO_ORDER, ordered=True)
    df["unused"] = [rng.randrange(0, 100) for _ in range(n)]
    # a column no formula mentions, with missing values: must never matter (training or prediction)
    df["unused_nan"] = [np.nan if rng.random() < 0.3 else 1.5 for _ in range(n)]
    # a factor with a single observed level: reduced coding = no column at all (zero-width term)
    df["one"] = ["solo"] * n
    return scramble_index(rng, df)


def scramble_index(rng, df):
    """row labels must not matter: default RangeIndex, a permuted integer index, or non-unique
    labels (e.g. two concatenated batches)"""
    k = rng.randrange(3)
    if k == 0:
        return df.reset_index(drop=True)
    out = df.copy()
    n = len(out)
    if k == 1:
        idx = list(range(100, 100 + n))
        rng.shuffle(idx)
        out.index = idx
    else:
        out.index = [rng.randrange(0, max(2, n // 2)) for _ in range(n)]
    return out


NUM_ATOMS = ["x", "z", "center(x)", "I(x + 1)", "{z * 2}", "center(z - 1)"]
CAT_ATOMS = ["f", "g", "h", "cu", "co", "C(f)", "C(k)", "T(f, 'b')", "T(g, ref='w')", "S(g)",
             "S(f, 'a')", "C(f, Sum)", "C(g, Treatment('v'))", "C(f, levels=lv_f)", "C(co)",
             "C(h, Treatment)"]
NAMES = {"lv_f": ["c", "a", "b"]}
# atoms outside the exact-rational model (floating point / scipy): used for the properties whose
# specification can be evaluated on the implementation's output alone
EXTRA_NUM = ["scale(x)", "bs(z, df=4)", "poly(x, 2)", "np.exp(z / 4)", "standardize(z)",
             "bs(x, df=3, degree=2)", "poly(z, 3, raw=True)"]


def namespace():
    return dict(NAMES, np=np)


def gen_term(rng, max_arity=3, extra=False):
    k = rng.choice([1, 1, 1, 2, 2, 3][:max(1, max_arity * 2)])
    atoms = []
    while len(atoms) < k:
        a = rng.choice(NUM_ATOMS if rng.random() < 0.4 else CAT_ATOMS)
        if extra and rng.random() < 0.25:
            a = rng.choice(EXTRA_NUM)
        base = a.replace("(", " ").replace(")", " ").replace(",", " ").split()
        key = base[1] if len(base) > 1 and base[0] in (
            "C", "T", "S", "center", "I", "scale", "bs", "poly", "np.exp", "standardize") else base[0]
        if all(key not in b for b in atoms):
            atoms.append(a)
    return ":".join(atoms)


COMPOSITES = ["{a}:({b} + {c})", "({a} + {b}):{c}", "{a}*({b} + {c})", "{a}/({b} + {c})", "({a} + {b} + {c})**2",
              "{a}*{b}", "{a}/{b}", "({a} + {b})*{c}", "{a}:({n} + {b})", "({a} + {n}):{b}", "{a}*{n}"]


def gen_composite(rng):
    """terms produced by the distributive operators (each product must own its components)"""
    cats = rng.sample(["f", "g", "h", "cu", "co", "C(k)"], 3)
    num = rng.choice(["x", "z", "center(x)"])
    return rng.choice(COMPOSITES).format(a=cats[0], b=cats[1], c=cats[2], n=num)


def gen_group(rng):
    eff = rng.choice(["1", "x", "f", "x + f", "0 + f", "f:x", "z", "0 + x", "h", "center(x)",
                      "x + z", "C(k)", "1 + x"])
    grp = rng.choice(["g", "h", "g:h", "C(k)", "g + h", "cu", "co", "k"])
    if any(v in eff for v in grp.replace(":", " ").replace("+", " ").split()):
        grp = "g" if "g" not in eff else "h"
    return f"({eff} | {grp})"


def gen_formula(rng, response=None, allow_group=True, max_terms=4, extra=False):
    nt = rng.randrange(1, max_terms + 1)
    terms = []
    for _ in range(nt):
        t = gen_term(rng, extra=extra)
        if t not in terms:
            terms.append(t)
    if rng.random() < 0.2:
        terms = [gen_composite(rng)] + terms[:1]
    if allow_group and rng.random() < 0.45:
        terms.append(gen_group(rng))
        if rng.random() < 0.3:
            terms.append(gen_group(rng))
    if rng.random() < 0.08:
        terms.append(rng.choice(["one", "one:x", "x:one", "one:f", "h:one", "(1 | one)", "(x | one)"]))
    rng.shuffle(terms)
    icpt = rng.choice(["", "", "", "0 + ", "1 + "])
    resp = response if response is not None else rng.choice(["y", "y", "y", "yc", "yc[yes]",
                                                            "p(s, n)", "y"])
    return f"{resp} ~ {icpt}" + " + ".join(terms)


# ------------------------------------------------------------------------------------------------
def frac(x):
    if x is None or x is pd.NA:
        return None
    if isinstance(x, (float, np.floating)):
        if math.isnan(x):
            return None
        f = Fraction(float(x))
    else:
        f = Fraction(int(x))
    return [f.numerator, f.denominator]


def mat(a):
    a = np.asarray(a)
    if a.ndim == 1:
        a = a[:, None]
    return [[frac(v) for v in row] for row in a.tolist()]


def frame_json(df):
    cols = []
    for name in df.columns:
        s = df[name]
        if isinstance(s.dtype, pd.CategoricalDtype):
            cols.append({"name": name, "kind": "cat", "ordered": bool(s.dtype.ordered),
                         "categories": [str(c) for c in s.dtype.categories],
                         "cells": [None if pd.isna(v) else str(v) for v in s.tolist()]})
        elif pd.api.types.is_integer_dtype(s):
            cols.append({"name": name, "kind": "int", "cells": [frac(v) for v in s.tolist()]})
        elif pd.api.types.is_numeric_dtype(s):
            cols.append({"name": name, "kind": "float", "cells": [frac(v) for v in s.tolist()]})
        else:
            cols.append({"name": name, "kind": "str",
                         "cells": [None if pd.isna(v) else str(v) for v in s.tolist()]})
    return {"cols": cols}


def names_json(names):
    out = {}
    for k, v in names.items():
        if isinstance(v, list):
            out[k] = {"levels": v}
        elif isinstance(v, str):
            out[k] = {"str": v}
        elif isinstance(v, int):
            out[k] = {"num": [v, 1], "int": True}
    return out


def _term_spec(term):
    return {"name": term.name,
            "comps": [[str(c.name), bool(c.spans_intercept)] for c in term.components]}


def _labels(terms):
    try:
        out = []
        for t in terms:
            labs = t.labels
            if labs is None:
                return None
            out.extend(labs)
        return out
    except Exception:  # noqa
        return None


def observe(formula, df, names, news=(), na_action="drop", disturb=None):
    """Run the implementation; returns (impl observation, driver request or None).
    `disturb`: another frame on which a second design with the SAME formula text is built before the
    first design is looked at (designs must not share state through the formula text)."""
    import formulae
    from formulae.terms import Intercept
    try:
        with warnings.catch_warnings():
            warnings.simplefilter("ignore")
            ns = dict(names)
            ns.setdefault("np", np)
            dm = formulae.design_matrices(formula, df, na_action=na_action, extra_namespace=ns)
            if disturb is not None:
                try:
                    formulae.design_matrices(formula, disturb, na_action=na_action, extra_namespace=ns)
                except Exception:  # noqa
                    pass
    except Exception as e:  # noqa
        return {"err": type(e).__name__, "msg": str(e)[:120]}, None
    obs = {"n": int(len(df))}
    req = {"op": "design", "formula": formula, "frame": frame_json(dm_frame(dm, df)),
           "names": names_json(names), "common": [], "group": [], "new": []}
    if dm.response is not None:
        t = dm.response.term.term
        obs["response"] = {"matrix": mat(dm.response.design_matrix), "labels": _labels([t]),
                           "kind": dm.response.kind,
                           "levels": None if t.components[0].levels is None else
                           [str(l) for l in t.components[0].levels]}
        req["response"] = _term_spec(t)
    else:
        obs["response"] = None
    if dm.common is not None:
        terms = list(dm.common.terms.values())
        obs["common"] = {"matrix": mat(dm.common.design_matrix), "labels": _labels(terms),
                         "slices": [[k, s.start, s.stop] for k, s in dm.common.slices.items()],
                         "kinds": [t.kind for t in terms]}
        for t in terms:
            req["common"].append({"name": "Intercept", "comps": []} if isinstance(t, Intercept)
                                 else _term_spec(t))
    else:
        obs["common"] = None
    if dm.group is not None:
        terms = list(dm.group.terms.values())
        obs["group"] = {"matrix": mat(dm.group.design_matrix), "labels": _labels(terms),
                        "slices": [[k, s.start, s.stop] for k, s in dm.group.slices.items()],
                        "kinds": [t.kind for t in terms], "groups": [list(t.groups) for t in terms]}
        for t in terms:
            req["group"].append({"name": t.name,
                                 "expr": None if isinstance(t.expr, Intercept) else _term_spec(t.expr),
                                 "factor": _term_spec(t.factor)})
    else:
        obs["group"] = None
    obs["new"] = []
    for nd in news:
        obs["new"].append(observe_new(dm, nd["df"], nd.get("mode", "error")))
        req["new"].append({"frame": frame_json(nd["df"]), "mode": nd.get("mode", "error")})
    obs["_dm"] = dm
    return obs, req


def dm_frame(dm, df):
    """The rows the design was built from (after the NA policy)."""
    for part in (dm.common, dm.group, dm.response):
        if part is not None and part.data is not None:
            return part.data
    return df


def observe_new(dm, nd, mode):
    import formulae
    out = {}
    old = formulae.config["EVAL_UNSEEN_CATEGORIES"]
    formulae.config["EVAL_UNSEEN_CATEGORIES"] = mode
    try:
        for part in ("common", "group"):
            obj = getattr(dm, part)
            if obj is None:
                out[part] = None
                continue
            try:
                with warnings.catch_warnings(record=True) as w:
                    warnings.simplefilter("always")
                    new = obj.evaluate_new_data(nd)
                res = {"matrix": mat(new.design_matrix), "warn": formulae_warned(w)}
                if part == "group":
                    res["slices"] = [[k, s.start, s.stop] for k, s in new.slices.items()]
                    res["factors_with_new_levels"] = list(new.factors_with_new_levels)
                out[part] = res
            except Exception as e:  # noqa
                out[part] = {"err": type(e).__name__, "msg": str(e)[:100]}
    finally:
        formulae.config["EVAL_UNSEEN_CATEGORIES"] = old
    return out


def formulae_warned(records):
    """formulae's own unseen-level warning (pandas deprecation warnings raised underneath are
    environment noise and are not counted)"""
    return any("not present in the original data set" in str(x.message) for x in records)


def strip(obs):
    return {k: v for k, v in obs.items() if not k.startswith("_")}


def compare_part(impl, model, keys):
    """-> list of differing keys between the implementation's and the model's view of one matrix"""
    if impl is None or model is None:
        return [] if impl is None and model is None else ["presence"]
    if "err" in impl or "err" in model:
        if "err" in impl and "err" in model:
            return [] if impl["err"] == model["err"] else ["error class"]
        return ["error"]
    return [k for k in keys if not same(impl.get(k), model.get(k), k == "matrix")]


def same(a, b, numeric):
    if not numeric:
        return a == b
    if a is None or b is None or len(a) != len(b):
        return a == b
    for ra, rb in zip(a, b):
        if len(ra) != len(rb):
            return False
        for x, y in zip(ra, rb):
            if x is None or y is None:
                if x is not y:
                    return False
                continue
            if x == y:
                continue
            fx, fy = x[0] / x[1], y[0] / y[1]
            if abs(fx - fy) > 1e-9 * max(1.0, abs(fx), abs(fy)):
                return False
    return True


def compare(obs, model):
    """Differences between implementation and model for a whole design (training + new data)."""
    diffs = []
    tr = model["train"]
    for part, keys in (("response", ["matrix", "labels", "kind", "levels"]),
                       ("common", ["matrix", "labels", "slices", "kinds"]),
                       ("group", ["matrix", "labels", "slices", "kinds", "groups"])):
        for k in compare_part(obs.get(part), tr.get(part), keys):
            diffs.append(f"train.{part}.{k}")
    for i, (io, mo) in enumerate(zip(obs.get("new", []), model.get("new", []))):
        for part, keys in (("common", ["matrix", "warn"]),
                           ("group", ["matrix", "slices", "factors_with_new_levels", "warn"])):
            for k in compare_part(io.get(part), mo.get(part), keys):
                diffs.append(f"new[{i}].{part}.{k}")
    return diffs
