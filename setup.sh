#!/bin/sh
# Offline build of the framework: regenerate the tables from /repo, build model, theorems, driver.
cd "$(dirname "$0")" || exit 2
export VERIF_REPO="${VERIF_REPO:-/repo}"
/venv/bin/python harness/extract_tables.py > /dev/null || echo "translator failed (reported by the checks)"
cd lean && lake build driver FormulaeModel
